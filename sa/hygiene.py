"""Crash-freedom and slip lints over the anchor modules of a property.

These are not the property.  They are necessary conditions of *every*
behavioural property anchored in a module: a branch that raises NameError /
TypeError / AttributeError instead of doing its work, a call whose arguments
sit in each other's places, or a comparison that can never be true, breaks
the property for exactly the inputs that reach it - and such branches are
the ones the test suite does not reach (otherwise the suite would fail).
All of them have an empty baseline on the pinned tree (one reasoned
exemption, see DEAD_CODE), so each report names a construct that appeared
with a change.

  .90  a name that is bound nowhere (symtable: implicit global that the
       module neither defines nor imports, not a builtin)
  .91  a call whose resolved package callee(s) cannot accept it (too many
       positional arguments, unknown keyword, missing required argument)
  .92  two arguments in each other's places (positional or keyword: the
       argument names are the callee's parameter names, crossed)
  .93  %-format with a tuple whose length differs from the number of
       conversion specifiers
  .94  self.<attr> read in a closed class hierarchy where nothing ever
       binds <attr>
  .95  comparisons that cannot mean what they say: `is` with a str/number
       literal, an expression compared with itself, the same test twice in
       one if/elif chain, a dict display with a repeated constant key

  .96  management commands: every options['key'] read is a dest the
       command's add_arguments() declares (or one of Django's base options)

Each property runs them over the files listed in its anchors (read from
/verif/properties.jsonl on every run)."""
from __future__ import annotations

import ast
import builtins
import json
import os
import re
import symtable
from typing import Dict, List, Set

from .program import (AnalysisError, Func, call_name, dotted, unparse,
                      walk_no_nested)

HERE = os.path.dirname(os.path.dirname(os.path.abspath(__file__)))

PY2_BUILTINS = {'unicode', 'basestring', 'long', 'xrange', 'reduce', 'file',
                'unichr', 'raw_input', 'cmp', 'buffer', 'execfile',
                '__file__', '__name__', '__doc__', '__package__',
                '__builtins__', '__path__', '__spec__', '__loader__',
                '__class__'}

# (module, qualname) -> reason.  Methods that nothing in the package refers
# to: a broken reference inside them cannot be reached.
DEAD_CODE = {
    ('django_evolution.signature', 'ConstraintSignature._serialize_attr_value'):
        'never called (serialisation goes through serialize_to_signature); '
        'its reference to self._deconstruct_attr_value is unreachable',
}

FMT = re.compile(r'%(?:\((\w+)\))?[#0\- +]*(?:\*|\d+)?(?:\.(?:\*|\d+))?'
                 r'([diouxXeEfFgGcrsa%])')


def anchor_files(prop: str) -> List[str]:
    path = os.path.join(HERE, 'properties.jsonl')
    with open(path) as fp:
        for line in fp:
            line = line.strip()
            if not line:
                continue
            d = json.loads(line)
            if d.get('id') == prop:
                return list(d.get('anchors', {}).get('files', []))
    raise AnalysisError('hygiene: property %s not found in properties.jsonl'
                        % prop)


def _module_bindings(table) -> Set[str]:
    out = set()
    for s in table.get_symbols():
        if s.is_assigned() or s.is_imported() or s.is_namespace() or \
                s.is_parameter():
            out.add(s.get_name())
    return out


def _undefined(src: str, filename: str):
    """[(lineno, name)] for names that resolve to the module/builtin scope
    but are bound in neither."""
    import warnings
    with warnings.catch_warnings():
        warnings.simplefilter('ignore')
        top = symtable.symtable(src, filename, 'exec')
    known = _module_bindings(top) | set(dir(builtins)) | PY2_BUILTINS
    # names bound via `global x` inside functions
    tree = ast.parse(src)
    for n in ast.walk(tree):
        if isinstance(n, ast.Global):
            known.update(n.names)
    star = any(isinstance(n, ast.ImportFrom) and any(a.name == '*'
               for a in n.names) for n in ast.walk(tree))
    if star:
        return []
    bad: Dict[str, Set[str]] = {}

    def rec(t):
        for s in t.get_symbols():
            if not s.is_referenced():
                continue
            free_global = t.get_type() == 'module' or s.is_global()
            if free_global and s.get_name() not in known:
                bad.setdefault(s.get_name(), set()).add(t.get_name())
        for c in t.get_children():
            rec(c)
    rec(top)
    out = []
    if bad:
        for n in ast.walk(tree):
            if isinstance(n, ast.Name) and isinstance(n.ctx, ast.Load) and \
                    n.id in bad:
                out.append((n.lineno, n.id))
    return out


def _sig(fn: Func):
    a = fn.node.args
    pos = [x.arg for x in a.posonlyargs + a.args]
    decos = fn.decorators or []
    if fn.cls is not None and pos and 'staticmethod' not in decos:
        pos = pos[1:]
    nd = len(a.defaults)
    req = pos[:len(pos) - nd] if nd else list(pos)
    kwo = [x.arg for x in a.kwonlyargs]
    kwo_req = [x.arg for x, d in zip(a.kwonlyargs, a.kw_defaults)
               if d is None]
    return pos, req, kwo, kwo_req, a.vararg is not None, a.kwarg is not None


def _referenced_names(p) -> Set[str]:
    out = set()
    for m in p.modules.values():
        for n in ast.walk(m.tree):
            if isinstance(n, ast.Attribute):
                out.add(n.attr)
            elif isinstance(n, ast.Name):
                out.add(n.id)
            elif isinstance(n, ast.Constant) and isinstance(n.value, str) \
                    and n.value.isidentifier():
                out.add(n.value)
    return out


# modules a property depends on although its anchor list does not name them
EXTRA_FILES = {
    'C11': ['django_evolution/mutators/base.py',
            'django_evolution/mutators/app_mutator.py',
            'django_evolution/mutators/model_mutator.py',
            'django_evolution/mutations/base.py'],
    'C01': ['django_evolution/mutators/base.py'],
    'C02': ['django_evolution/mutators/base.py'],
    # ChangeMeta.simulate() consults the backends' supported_change_meta
    'C05': ['django_evolution/db/common.py', 'django_evolution/db/sqlite3.py',
            'django_evolution/db/mysql.py',
            'django_evolution/db/postgresql.py'],
}


def run(ctx, prop: str):
    p = ctx.program
    files = anchor_files(prop) + EXTRA_FILES.get(prop.upper(), [])
    mods = [m for m in p.modules.values() if m.relpath in files]
    if not mods:
        raise AnalysisError('hygiene: none of the anchor files of %s is a '
                            'module of the package' % prop)
    pid = prop.upper()

    # .90 undefined names ---------------------------------------------------
    ctx.rule('R-%s.90' % pid)
    n_mod = 0
    hit = False
    for m in mods:
        n_mod += 1
        for lineno, name in _undefined(m.source, m.relpath):
            hit = True
            ctx.finding((m.name, '<module>'), None,
                        '%s:%d uses the name %r, which is bound nowhere in '
                        'the module (not assigned, not imported, not a '
                        'builtin): the branch raises NameError when it is '
                        'reached' % (m.relpath, lineno, name),
                        key='undefined-name:%s' % name)
    ctx.counts['R-%s.90 anchor modules scanned' % pid] = n_mod
    if not hit:
        ctx.ok((mods[0].name, '*'), 'every name used in the %d anchor '
               'modules is bound' % n_mod)

    # .91 / .92 call sites -----------------------------------------------------
    n_calls = 0
    sig_bad = swap_bad = False
    for m in mods:
        for f in m.all_funcs():
            for c in walk_no_nested(f.node, include_lambda=True):
                if not isinstance(c, ast.Call):
                    continue
                targets, prec = p.resolve_call(f, c)
                if prec not in ('exact', 'cha') or not targets:
                    continue
                if any(isinstance(a, ast.Starred) for a in c.args) or \
                        any(k.arg is None for k in c.keywords):
                    continue
                n_calls += 1
                npos = len(c.args)
                problems = []
                for t in targets:
                    pos, req, kwo, kwo_req, va, kw = _sig(t)
                    if any(d and 'property' in d for d in t.decorators or []):
                        continue
                    if not va and npos > len(pos):
                        problems.append('%d positional arguments, %s takes '
                                        '%d' % (npos, t.qualname, len(pos)))
                    for k in c.keywords:
                        if not kw and k.arg not in pos and k.arg not in kwo:
                            problems.append('%s has no parameter %r' % (
                                t.qualname, k.arg))
                    given = set(pos[:npos]) | {k.arg for k in c.keywords}
                    miss = [r for r in req + kwo_req if r not in given]
                    if miss:
                        problems.append('%s requires %s' % (
                            t.qualname, ', '.join(miss)))
                # a CHA call is wrong only if no target accepts it... keep it
                # simple and strict: every resolved target must accept it
                ctx.rule('R-%s.91' % pid)
                if problems:
                    sig_bad = True
                    ctx.finding(f, c, '%s calls %s in a way its definition '
                                'does not accept (%s): TypeError when this '
                                'line is reached' % (
                                    f.qualname,
                                    ' '.join(unparse(c.func).split()),
                                    '; '.join(sorted(set(problems)))),
                                key='call-signature:%s' % (call_name(c)))
                # swapped arguments
                ctx.rule('R-%s.92' % pid)
                for t in targets[:1]:
                    pos, req, kwo, kwo_req, va, kw = _sig(t)
                    for i, a in enumerate(c.args[:len(pos)]):
                        if isinstance(a, ast.Name) and a.id in pos and \
                                pos[i] != a.id:
                            j = pos.index(a.id)
                            if j < len(c.args) and \
                                    isinstance(c.args[j], ast.Name) and \
                                    c.args[j].id == pos[i]:
                                swap_bad = True
                                ctx.finding(
                                    f, c, '%s passes %s where %s expects %s '
                                    'and vice versa' % (
                                        f.qualname, a.id, t.qualname, pos[i]),
                                    key='swapped-arguments:%s' % call_name(c))
                    names = pos + kwo

                    def last_id(e):
                        # x -> 'x', self.x / obj.x -> 'x'
                        if isinstance(e, ast.Name):
                            return e.id
                        if isinstance(e, ast.Attribute):
                            return e.attr
                        return None
                    for k in c.keywords:
                        vid = last_id(k.value)
                        if vid in names and vid != k.arg:
                            other = [kk for kk in c.keywords
                                     if kk.arg == vid and
                                     last_id(kk.value) == k.arg]
                            if other:
                                swap_bad = True
                                ctx.finding(
                                    f, c, '%s passes %s=%s and %s=%s to %s: '
                                    'the two arguments sit in each other\'s '
                                    'places' % (
                                        f.qualname, k.arg,
                                        unparse(k.value), other[0].arg,
                                        unparse(other[0].value), t.qualname),
                                    key='swapped-arguments:%s' % call_name(c))
    # crossed keywords, whatever the callee: f(a=x.b, b=x.a)
    ctx.rule('R-%s.92' % pid)
    for m in mods:
        for f in m.all_funcs():
            for c in walk_no_nested(f.node, include_lambda=True):
                if not (isinstance(c, ast.Call) and len(c.keywords) >= 2):
                    continue

                def _last(e):
                    if isinstance(e, ast.Name):
                        return e.id
                    if isinstance(e, ast.Attribute):
                        return e.attr
                    return None
                for k in c.keywords:
                    v = _last(k.value)
                    if not (k.arg and v and v != k.arg):
                        continue
                    o = [kk for kk in c.keywords
                         if kk.arg == v and _last(kk.value) == k.arg]
                    if o:
                        swap_bad = True
                        ctx.finding(f, c, '%s passes %s=%s and %s=%s: the two '
                                    'values sit under each other\'s names' % (
                                        f.qualname, k.arg, unparse(k.value),
                                        o[0].arg, unparse(o[0].value)),
                                    key='swapped-arguments:%s' %
                                    call_name(c))
    # issubclass / isinstance asked the wrong way round: a class *constant*
    # (CamelCase last component) in the object slot and a variable in the
    # class slot.  Every such test in the package asks whether a variable's
    # type is a kind of a named class.
    ctx.rule('R-%s.92' % pid)

    def _class_const(e):
        if isinstance(e, ast.Tuple):
            return bool(e.elts) and all(_class_const(x) for x in e.elts)
        d = dotted(e)
        if not d:
            return False
        last = d.split('.')[-1]
        return last[:1].isupper() and not last.isupper()
    n_kind = 0
    for m in mods:
        for f in m.all_funcs():
            for c in walk_no_nested(f.node, include_lambda=True):
                if not (isinstance(c, ast.Call) and
                        isinstance(c.func, ast.Name) and
                        c.func.id in ('issubclass', 'isinstance') and
                        len(c.args) == 2 and not c.keywords):
                    continue
                n_kind += 1
                if _class_const(c.args[0]) and not _class_const(c.args[1]):
                    swap_bad = True
                    ctx.finding(f, c, '%s asks %s: whether the named class '
                                'is a kind of the variable, which is false '
                                'for every proper subclass the variable may '
                                'hold (the two arguments are in each '
                                'other\'s places)' % (
                                    f.qualname, unparse(c)),
                                key='swapped-arguments:%s' % c.func.id)
    ctx.counts['R-%s.92 isinstance/issubclass tests' % pid] = n_kind
    ctx.rule('R-%s.91' % pid)
    ctx.counts['R-%s.91 calls with a resolved package callee' % pid] = n_calls
    if not sig_bad:
        ctx.ok((mods[0].name, '*'), '%d resolved calls match their callee\'s '
               'signature' % n_calls)
    ctx.rule('R-%s.92' % pid)
    if not swap_bad:
        ctx.ok((mods[0].name, '*'), 'no call passes two arguments in each '
               'other\'s places')

    # .93 %-format arity -------------------------------------------------------
    ctx.rule('R-%s.93' % pid)
    n_fmt, hit = 0, False
    for m in mods:
        for f in m.all_funcs():
            for b in walk_no_nested(f.node, include_lambda=True):
                if not (isinstance(b, ast.BinOp) and isinstance(b.op, ast.Mod)
                        and isinstance(b.left, ast.Constant) and
                        isinstance(b.left.value, str)):
                    continue
                specs = [(x.group(1), x.group(2))
                         for x in FMT.finditer(b.left.value)]
                if any(nm for nm, _ in specs):
                    continue
                cnt = len([1 for _, conv in specs if conv != '%'])
                if isinstance(b.right, ast.Tuple):
                    if any(isinstance(e, ast.Starred) for e in b.right.elts):
                        continue
                    n_fmt += 1
                    if len(b.right.elts) != cnt:
                        hit = True
                        ctx.finding(f, b, '%s formats %d value(s) into a '
                                    'string with %d conversion(s): TypeError '
                                    'when the line is reached' % (
                                        f.qualname, len(b.right.elts), cnt),
                                    key='format-arity')
                elif isinstance(b.right, (ast.Constant, ast.JoinedStr,
                                          ast.List, ast.BinOp)):
                    n_fmt += 1
                    if cnt != 1:
                        hit = True
                        ctx.finding(f, b, '%s formats one value into a '
                                    'string with %d conversions' % (
                                        f.qualname, cnt), key='format-arity')
    ctx.counts['R-%s.93 %%-format expressions with a literal tuple' % pid] = \
        n_fmt
    if not hit:
        ctx.ok((mods[0].name, '*'), '%d %%-format expressions have as many '
               'values as conversions' % n_fmt)

    # .94 self attributes --------------------------------------------------------
    ctx.rule('R-%s.94' % pid)
    referenced = None
    n_cls, hit = 0, False
    for m in mods:
        for c in m.classes.values():
            mro = c.mro()
            known, ext = set(), False
            for k in list(mro) + c.all_subclasses():
                known |= set(k.methods) | set(k.class_attrs)
                for st in k.node.body:
                    if isinstance(st, ast.AnnAssign) and \
                            isinstance(st.target, ast.Name):
                        known.add(st.target.id)
                    if isinstance(st, ast.ClassDef):
                        known.add(st.name)
                    if isinstance(st, (ast.For, ast.If, ast.Try, ast.With)):
                        for x in ast.walk(st):
                            if isinstance(x, ast.Name) and \
                                    isinstance(x.ctx, ast.Store):
                                known.add(x.id)
                for fnode in [st for st in k.node.body if isinstance(
                        st, (ast.FunctionDef, ast.AsyncFunctionDef))]:
                    for n in ast.walk(fnode):
                        if isinstance(n, ast.Attribute) and \
                                isinstance(n.ctx, (ast.Store, ast.Del)) and \
                                isinstance(n.value, ast.Name) and \
                                n.value.id in ('self', 'cls'):
                            known.add(n.attr)
                        if isinstance(n, ast.Call) and \
                                call_name(n) in ('setattr', '__setattr__'):
                            ext = True
            for k in mro:
                if any(b not in ('object',) for b in k.ext_bases):
                    ext = True
                if '__getattr__' in k.methods or \
                        '__getattribute__' in k.methods:
                    ext = True
            if ext:
                continue
            n_cls += 1
            # every def of the class body (a property getter and its setter
            # share a name; Class.methods keeps only the last one)
            defs = [Func(m, st, cls=c) for st in c.node.body
                    if isinstance(st, (ast.FunctionDef,
                                       ast.AsyncFunctionDef))]
            for fn in defs:
                for n in ast.walk(fn.node):
                    if isinstance(n, ast.Attribute) and \
                            isinstance(n.ctx, ast.Load) and \
                            isinstance(n.value, ast.Name) and \
                            n.value.id == 'self' and n.attr not in known \
                            and not n.attr.startswith('__'):
                        if (m.name, fn.qualname) in DEAD_CODE:
                            if referenced is None:
                                referenced = _referenced_names(p)
                            # still dead?
                            uses = sum(
                                1 for mm in p.modules.values()
                                for x in ast.walk(mm.tree)
                                if isinstance(x, ast.Attribute) and
                                x.attr == fn.name)
                            if uses == 0:
                                ctx.info('%s: %s (exempt: %s)' % (
                                    fn.qualname, n.attr,
                                    DEAD_CODE[(m.name, fn.qualname)]))
                                continue
                        hit = True
                        ctx.finding(fn, n, '%s reads self.%s, which no class '
                                    'of the (closed) hierarchy of %s ever '
                                    'binds: AttributeError when the line is '
                                    'reached' % (fn.qualname, n.attr, c.name),
                                    key='undefined-attribute:%s' % n.attr)
    ctx.counts['R-%s.94 closed class hierarchies scanned' % pid] = n_cls
    if not hit:
        ctx.ok((mods[0].name, '*'), 'every self attribute read in %d closed '
               'class hierarchies is bound somewhere' % n_cls)

    # .95 comparisons that cannot mean what they say ------------------------------
    ctx.rule('R-%s.95' % pid)
    n_cmp, hit = 0, False
    for m in mods:
        for f in m.all_funcs():
            for n in walk_no_nested(f.node, include_lambda=True):
                if isinstance(n, ast.Compare):
                    n_cmp += 1
                    operands = [n.left] + list(n.comparators)
                    for op, a, b in zip(n.ops, operands, operands[1:]):
                        if isinstance(op, (ast.Is, ast.IsNot)):
                            for x in (a, b):
                                if isinstance(x, ast.Constant) and \
                                        isinstance(x.value, (str, bytes, int,
                                                             float)) and \
                                        not isinstance(x.value, bool):
                                    hit = True
                                    ctx.finding(
                                        f, n, '%s compares by identity with '
                                        'the literal %r: whether that is '
                                        'true depends on interning, not on '
                                        'the value' % (f.qualname, x.value),
                                        key='identity-with-literal')
                        if isinstance(op, (ast.Eq, ast.NotEq, ast.Is,
                                           ast.IsNot, ast.Lt, ast.Gt)) and \
                                not any(isinstance(y, ast.Call)
                                        for y in ast.walk(a)) and \
                                unparse(a) == unparse(b):
                            hit = True
                            ctx.finding(f, n, '%s compares %s with itself' % (
                                f.qualname, unparse(a)),
                                key='self-comparison')
                if isinstance(n, ast.If):
                    seen = []
                    cur = n
                    while True:
                        t = unparse(cur.test)
                        pure = not any(isinstance(y, ast.Call)
                                       for y in ast.walk(cur.test))
                        if pure and t in seen:
                            hit = True
                            ctx.finding(f, cur, '%s tests "%s" twice in one '
                                        'if/elif chain: the second branch is '
                                        'unreachable' % (
                                            f.qualname, ' '.join(t.split())),
                                        key='duplicate-branch-test')
                        seen.append(t)
                        if len(cur.orelse) == 1 and \
                                isinstance(cur.orelse[0], ast.If):
                            cur = cur.orelse[0]
                        else:
                            break
        for d in ast.walk(m.tree):
            if isinstance(d, ast.Dict):
                ks = [k.value for k in d.keys
                      if isinstance(k, ast.Constant)]
                dup = {k for k in ks if ks.count(k) > 1}
                if dup:
                    hit = True
                    ctx.finding((m.name, '<module>'), d,
                                '%s: dict display repeats the key(s) %s: the '
                                'earlier entries are silently dropped' % (
                                    m.relpath, sorted(map(repr, dup))),
                                key='duplicate-dict-key:%s' %
                                ','.join(sorted(map(repr, dup))))
    ctx.counts['R-%s.95 comparisons scanned' % pid] = n_cmp
    if not hit:
        ctx.ok((mods[0].name, '*'), '%d comparisons, if/elif chains and dict '
               'displays: none is vacuous' % n_cmp)


DJANGO_BASE_OPTIONS = {'verbosity', 'settings', 'pythonpath', 'traceback',
                       'no_color', 'force_color', 'skip_checks', 'args',
                       'stdout', 'stderr'}


def declared_dests(add_arguments_node) -> Set[str]:
    out = set()
    for c in ast.walk(add_arguments_node):
        if not (isinstance(c, ast.Call) and call_name(c) == 'add_argument'):
            continue
        dest = None
        for k in c.keywords:
            if k.arg == 'dest' and isinstance(k.value, ast.Constant):
                dest = k.value.value
        if dest is None:
            flags = [a.value for a in c.args if isinstance(a, ast.Constant)
                     and isinstance(a.value, str)]
            longs = [f for f in flags if f.startswith('--')]
            if longs:
                dest = longs[0][2:].replace('-', '_')
            elif flags and not flags[0].startswith('-'):
                dest = flags[0]
            elif flags:
                dest = flags[0].lstrip('-')
        if dest:
            out.add(dest)
    return out


def run_tuple_protocol(ctx, prop: str):
    """.97  a list that is filled with tuples of named values
    (`L.append((old, new))`) and consumed by unpacking (`for old, new in L`,
    also in a nested function): when producer and consumer use the same
    names, they use them in the same order."""
    p = ctx.program
    files = anchor_files(prop) + EXTRA_FILES.get(prop.upper(), [])
    mods = [m for m in p.modules.values() if m.relpath in files]
    pid = prop.upper()
    ctx.rule('R-%s.97' % pid)
    n, hit = 0, False
    for m in mods:
        for f in m.all_funcs():
            if f.outer is not None:
                continue
            prod = {}
            for x in ast.walk(f.node):
                if isinstance(x, ast.Call) and \
                        isinstance(x.func, ast.Attribute) and \
                        x.func.attr == 'append' and \
                        isinstance(x.func.value, ast.Name) and x.args and \
                        isinstance(x.args[0], ast.Tuple) and \
                        all(isinstance(e, ast.Name)
                            for e in x.args[0].elts):
                    prod.setdefault(x.func.value.id, []).append(
                        ([e.id for e in x.args[0].elts], x))
            for x in ast.walk(f.node):
                if isinstance(x, (ast.For, ast.comprehension)) and \
                        isinstance(x.iter, ast.Name) and x.iter.id in prod \
                        and isinstance(x.target, (ast.Tuple, ast.List)) and \
                        all(isinstance(e, ast.Name) for e in x.target.elts):
                    cons = [e.id for e in x.target.elts]
                    for pr, call in prod[x.iter.id]:
                        n += 1
                        if set(pr) == set(cons) and pr != cons:
                            hit = True
                            ctx.finding(f, call, '%s appends (%s) to %s but '
                                        'the consumer unpacks (%s): the '
                                        'values arrive under each other\'s '
                                        'names' % (
                                            f.qualname, ', '.join(pr),
                                            x.iter.id, ', '.join(cons)),
                                        key='tuple-fields-transposed:%s' %
                                        x.iter.id)
    ctx.counts['R-%s.97 tuple producer/consumer pairs' % pid] = n
    if n and not hit:
        ctx.ok((mods[0].name, '*'), '%d tuple producer/consumer pairs agree '
               'on the field order' % n)


DJANGO_BASECOMMAND_METHODS = {
    'execute', 'handle', 'run_from_argv', 'create_parser', 'add_arguments',
    'add_base_argument', 'print_help', 'check', 'check_migrations',
    'get_version',
}


def run_method_truthiness(ctx, prop: str):
    """.98  `self.<name>` used as a condition where <name> is a method (of
    the class hierarchy, or of Django's BaseCommand for management
    commands) and is never assigned as an attribute: a bound method is
    always true, so the branch is taken for every input (`if app_labels and
    self.execute:` rejects every `evolve <app_label>` invocation)."""
    p = ctx.program
    files = anchor_files(prop) + EXTRA_FILES.get(prop.upper(), [])
    mods = [m for m in p.modules.values() if m.relpath in files]
    pid = prop.upper()
    ctx.rule('R-%s.98' % pid)
    n, hit = 0, False
    for m in mods:
        for c in m.classes.values():
            methods = set()
            assigned = set()
            for k in c.mro():
                methods |= {st.name for st in k.node.body if isinstance(
                    st, (ast.FunctionDef, ast.AsyncFunctionDef)) and not any(
                        'property' in (unparse(d)) or 'setter' in unparse(d)
                        for d in st.decorator_list)}
                if any(b.endswith('BaseCommand') for b in k.ext_bases):
                    methods |= DJANGO_BASECOMMAND_METHODS
                for x in ast.walk(k.node):
                    if isinstance(x, ast.Attribute) and \
                            isinstance(x.ctx, ast.Store) and \
                            isinstance(x.value, ast.Name) and \
                            x.value.id == 'self':
                        assigned.add(x.attr)
                for st in k.node.body:      # class-level attributes
                    if isinstance(st, ast.Assign):
                        for t in st.targets:
                            if isinstance(t, ast.Name):
                                assigned.add(t.id)
            always = methods - assigned
            for st in c.node.body:
                if not isinstance(st, ast.FunctionDef):
                    continue
                for x in ast.walk(st):
                    conds = []
                    if isinstance(x, (ast.If, ast.While, ast.IfExp,
                                      ast.Assert)):
                        conds.append(x.test)
                    if isinstance(x, ast.UnaryOp) and \
                            isinstance(x.op, ast.Not):
                        conds.append(x.operand)
                    work = list(conds)
                    while work:
                        t = work.pop()
                        if isinstance(t, ast.BoolOp):
                            work.extend(t.values)
                            continue
                        n += 1
                        if isinstance(t, ast.Attribute) and \
                                isinstance(t.value, ast.Name) and \
                                t.value.id == 'self' and t.attr in always:
                            hit = True
                            ctx.finding((m.name, '%s.%s' % (c.name, st.name)),
                                        t, '%s.%s tests self.%s, which is a '
                                        'method and never assigned: the '
                                        'condition is true for every input' %
                                        (c.name, st.name, t.attr),
                                        key='method-used-as-condition:%s' %
                                        t.attr)
    ctx.counts['R-%s.98 conditions scanned for bound methods' % pid] = n
    if n and not hit:
        ctx.ok((mods[0].name, '*'), 'no condition tests a bound method')


def run_sticky_flags(ctx, prop: str):
    """.99  a Boolean flag that a loop sets for the current element and tests
    inside the same loop must be reset in every iteration: if the value set
    in one iteration can reach the test of a later one (through the loop
    head, with no other assignment in between), the decision taken for one
    element silently applies to all the following ones."""
    p = ctx.program
    files = anchor_files(prop) + EXTRA_FILES.get(prop.upper(), [])
    mods = [m for m in p.modules.values() if m.relpath in files]
    pid = prop.upper()
    ctx.rule('R-%s.99' % pid)
    n, hit = 0, False
    for m in mods:
        for f in m.all_funcs():
            loops = [l for l in walk_no_nested(f.node)
                     if isinstance(l, (ast.For, ast.While))]
            g = None
            for l in loops:
                body_nodes = [x for st in l.body for x in ast.walk(st)]
                sets = {}
                for x in body_nodes:
                    if isinstance(x, ast.Assign) and len(x.targets) == 1 and \
                            isinstance(x.targets[0], ast.Name) and \
                            isinstance(x.value, ast.Constant) and \
                            isinstance(x.value.value, bool):
                        sets.setdefault(x.targets[0].id, []).append(x)
                for name, asgs in sets.items():
                    tests = [x for x in body_nodes
                             if isinstance(x, (ast.If, ast.While)) and any(
                                 isinstance(y, ast.Name) and y.id == name
                                 for y in ast.walk(x.test))]
                    if not tests:
                        continue
                    n += 1
                    if g is None:
                        g = ctx.cfg(f)
                    head = next((nd for nd in g.nodes if nd.kind == 'for' and
                                 nd.ast is l), None) or next(
                        (nd for nd in g.nodes if nd.stmt is l), None)
                    allasg = [nd for nd in g.nodes if nd.kind == 'stmt' and
                              isinstance(nd.ast, ast.Assign) and any(
                                  isinstance(t, ast.Name) and t.id == name
                                  for t in nd.ast.targets)]
                    for a in asgs:
                        an = next((nd for nd in g.nodes if nd.ast is a), None)
                        if an is None or head is None:
                            continue
                        others = [x for x in allasg if x is not an]
                        if g.path(an, head, avoid=others,
                                  follow_exc=False) is None:
                            continue
                        for t in tests:
                            for tn in [nd for nd in g.nodes
                                       if nd.stmt is t and
                                       nd.kind in ('test', 'operand')]:
                                if not any(isinstance(y, ast.Name) and
                                           y.id == name
                                           for y in ast.walk(tn.ast)):
                                    continue
                                if g.path(head, tn, avoid=allasg,
                                          follow_exc=False) is not None:
                                    hit = True
                                    ctx.finding(
                                        f, a, '%s sets the flag %r for one '
                                        'element of the loop at line %d and '
                                        'tests it for the next ones without '
                                        'resetting it: everything after the '
                                        'first element that sets it is '
                                        'treated the same way' % (
                                            f.qualname, name, l.lineno),
                                        key='sticky-flag:%s' % name)
    ctx.counts['R-%s.99 per-iteration flags examined' % pid] = n
    if not hit:
        ctx.ok((mods[0].name, '*'), 'no per-iteration flag survives into the '
               'next iteration')


def run_class_alias_mutation(ctx, prop: str):
    """.89  a class body that binds a name to another class's attribute
    (`table = Base.table`) and then mutates it in place changes the *other*
    class's table for every subclass and backend loaded in the process."""
    p = ctx.program
    files = anchor_files(prop) + EXTRA_FILES.get(prop.upper(), [])
    mods = [m for m in p.modules.values() if m.relpath in files]
    pid = prop.upper()
    ctx.rule('R-%s.89' % pid)
    n, hit = 0, False
    MUT = {'update', 'append', 'extend', 'add', 'pop', 'remove', 'clear',
           'insert', 'setdefault', 'discard'}
    for m in mods:
        for c in m.classes.values():
            aliases = {}
            for st in c.node.body:
                if isinstance(st, ast.Assign) and len(st.targets) == 1 and \
                        isinstance(st.targets[0], ast.Name) and \
                        isinstance(st.value, ast.Attribute) and \
                        isinstance(st.value.value, ast.Name) and \
                        st.value.value.id[:1].isupper():
                    aliases[st.targets[0].id] = st
                    n += 1
                bad = None
                if isinstance(st, ast.Expr) and \
                        isinstance(st.value, ast.Call) and \
                        isinstance(st.value.func, ast.Attribute) and \
                        st.value.func.attr in MUT and \
                        isinstance(st.value.func.value, ast.Name) and \
                        st.value.func.value.id in aliases:
                    bad = st.value.func.value.id
                if isinstance(st, (ast.Assign, ast.Delete)):
                    for t in (st.targets if hasattr(st, 'targets') else []):
                        if isinstance(t, ast.Subscript) and \
                                isinstance(t.value, ast.Name) and \
                                t.value.id in aliases:
                            bad = t.value.id
                if bad:
                    hit = True
                    ctx.finding((m.name, c.name), st, 'the body of %s binds '
                                '%s to %s and then changes it in place: the '
                                'change is made to the other class\'s '
                                'object and is seen by every class that '
                                'shares it (all backends loaded in the '
                                'process)' % (
                                    c.name, bad,
                                    unparse(aliases[bad].value)),
                                key='class-attribute-alias-mutated:%s' % bad)
    ctx.counts['R-%s.89 class-level aliases of other classes\' attributes'
               % pid] = n
    if not hit:
        ctx.ok((mods[0].name, '*'), 'no class body mutates an attribute it '
               'merely aliases from another class')


def run_options(ctx, prop: str):
    p = ctx.program
    files = anchor_files(prop)
    mods = [m for m in p.modules.values() if m.relpath in files and
            '/management/commands/' in m.relpath]
    if not mods:
        return
    pid = prop.upper()
    ctx.rule('R-%s.96' % pid)
    n, hit = 0, False
    for m in mods:
        for c in m.classes.values():
            aa = c.methods.get('add_arguments')
            if aa is None:
                continue
            if any(isinstance(x, ast.Call) and isinstance(x.func, ast.Name)
                   and x.func.id == 'super' for x in ast.walk(aa.node)):
                continue      # inherits options of an external command
            dests = declared_dests(aa.node) | DJANGO_BASE_OPTIONS
            for st in c.node.body:
                if not isinstance(st, ast.FunctionDef):
                    continue
                for x in ast.walk(st):
                    key = None
                    if isinstance(x, ast.Subscript) and \
                            isinstance(x.value, ast.Name) and \
                            x.value.id == 'options' and \
                            isinstance(x.slice, ast.Constant):
                        key = x.slice.value
                    if isinstance(x, ast.Call) and \
                            isinstance(x.func, ast.Attribute) and \
                            x.func.attr in ('get', 'pop') and \
                            isinstance(x.func.value, ast.Name) and \
                            x.func.value.id == 'options' and x.args and \
                            isinstance(x.args[0], ast.Constant):
                        key = x.args[0].value
                    if key is None:
                        continue
                    n += 1
                    if key not in dests:
                        hit = True
                        ctx.finding((m.name, '%s.%s' % (c.name, st.name)), x,
                                    '%s.%s reads options[%r], which '
                                    'add_arguments() does not declare '
                                    '(declared: %s): KeyError, or a flag '
                                    'that is silently never set' % (
                                        c.name, st.name, key,
                                        ', '.join(sorted(
                                            dests - DJANGO_BASE_OPTIONS))),
                                    key='undeclared-option:%s' % key)
    ctx.counts['R-%s.96 option keys read by the anchor commands' % pid] = n
    if n and not hit:
        ctx.ok((mods[0].name, '*'), 'all %d option keys read are declared '
               'by add_arguments()' % n)
