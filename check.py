#!/venv/bin/python
"""Entry point: /venv/bin/python /verif/check.py <Cxx> [--tier quick|thorough]

Exit 0: every decided clause holds on /repo's working tree (or only listed
        known findings were re-derived);
exit 1: a clause is violated by a construct that is not a listed known
        finding -> prints  VIOLATION property=<id> replay=<path>;
exit 2: the analysis itself is broken (anchor vanished, instance floor not
        met, checker crashed) -> prints ANALYSIS-ERROR ...
"""
from __future__ import annotations

import argparse
import importlib
import json
import os
import sys
import time
import traceback

HERE = os.path.dirname(os.path.abspath(__file__))
sys.path.insert(0, HERE)
sys.dont_write_bytecode = True

from sa.program import AnalysisError, Program  # noqa: E402
from sa.report import Ctx, write_evidence, load_known  # noqa: E402

ASSUMPTIONS = [
    'Python ast of /repo/django_evolution (tests/ excluded) is the program; '
    'nothing is imported or executed',
    'call resolution is class-hierarchy analysis without types: a call on a '
    'receiver of unknown class resolves to every package method of that name '
    '(may-rules) or to nothing (must-rules), whichever cannot hide a violation',
    'exceptions may be raised by any call/raise/assert; __exit__ of context '
    'managers is assumed not to swallow exceptions',
    'six.iteritems/itervalues/iterkeys are .items()/.values()/.keys()',
    'clauses decided are necessary conditions of the property, not the '
    'behaviour itself (see coverage.not_decided)',
]


def run_check(prop: str, tier: str, root: str, known=None, evidence_path=None,
              quiet=False, write=True):
    t0 = time.time()
    mod = importlib.import_module('sa.rules.%s' % prop.lower())
    program = Program(root)
    ctx = Ctx(prop, program, tier=tier, known=known)
    mod.run(ctx)
    from sa import hygiene
    hygiene.run(ctx, prop)
    hygiene.run_options(ctx, prop)
    hygiene.run_tuple_protocol(ctx, prop)
    hygiene.run_method_truthiness(ctx, prop)
    hygiene.run_sticky_flags(ctx, prop)
    hygiene.run_class_alias_mutation(ctx, prop)
    extra = {}
    if tier == 'thorough' and hasattr(mod, 'run_thorough'):
        mod.run_thorough(ctx)
    wall = time.time() - t0
    return ctx, mod, wall


def main(argv=None):
    ap = argparse.ArgumentParser()
    ap.add_argument('prop', nargs='?')
    ap.add_argument('--tier', default=os.environ.get('VERIF_TIER', 'quick'))
    ap.add_argument('--root', default=os.environ.get('VERIF_REPO', '/repo'))
    ap.add_argument('--replay')
    ap.add_argument('--no-selftest', action='store_true')
    args = ap.parse_args(argv)
    tier = 'thorough' if args.tier == 'thorough' else 'quick'
    seed = int(os.environ.get('VERIF_SEED', '0') or 0)

    if args.replay:
        with open(args.replay) as fp:
            rep = json.load(fp)
        args.prop = rep['property']
    if not args.prop:
        ap.error('property id required')
    prop = args.prop.upper()

    try:
        t0 = time.time()
        ctx, mod, wall = run_check(prop, tier, args.root)
        selftest = None
        if tier == 'thorough' and not args.no_selftest and not args.replay:
            from sa import selftest as st
            selftest = st.run_for_property(prop)
            selftest['robustness'] = st.robustness_sample(
                prop, sorted(ctx.funcs_analysed), seed=seed)
        wall = time.time() - t0
    except AnalysisError as e:
        print('ANALYSIS-ERROR property=%s %s' % (prop, e))
        return 2
    except Exception:
        tb = traceback.format_exc()
        print('ANALYSIS-ERROR property=%s checker crashed:\n%s' % (prop, tb))
        return 2

    if args.replay:
        hits = [f for f in ctx.findings
                if f.rule == rep['rule'] and f.qualname == rep['qualname'] and
                f.key == rep['key']]
        if hits:
            for f in hits:
                print('REPRODUCED %s %s %s: %s' % (f.loc, f.rule, f.qualname,
                                                   f.message))
                for step in f.path or []:
                    print('    ' + step)
            return 1
        print('not reproduced on the current tree: %s %s' %
              (rep['rule'], rep['key']))
        return 0

    # -- report ------------------------------------------------------------
    print('property %s  tier=%s  root=%s' % (prop, tier, ctx.program.root))
    print('rules: %s' % ', '.join(ctx.rules_run))
    print('analysed: %d modules, %d functions, %d cfg nodes; %d obligations, '
          '%d hold' % (len(ctx.program.modules), len(ctx.funcs_analysed),
                       ctx.cfg_nodes, len(ctx.obligations),
                       sum(1 for o in ctx.obligations
                           if o['verdict'] == 'holds')))
    for k, v in sorted(ctx.counts.items()):
        print('  count %-55s %d' % (k, v))
    for i in ctx.infos:
        print('INFO ' + i)
    for f in ctx.listed():
        print('KNOWN-FINDING: property=%s %s %s:%s %s' % (
            prop, f.rule, f.module, f.qualname,
            f.known.get('what_fails', f.message)))
    for k in ctx.stale_known():
        print('STALE-KNOWN-FINDING: property=%s %s %s:%s (no longer derived: '
              '%s)' % (prop, k['rule'], k['module'], k['qualname'], k['key']))
    extra = {}
    if selftest is not None:
        extra['selftest'] = selftest
        print('selftest: %d variants, %d as expected' % (
            selftest['variants'], selftest['as_expected']))
        rb = selftest.get('robustness') or {}
        if rb.get('variants'):
            print('robustness sample (seed %s): %d behaviour-preserving '
                  'edits, verdict unchanged on %d' % (
                      rb.get('seed'), rb['variants'], rb['unchanged']))
            for c in rb.get('changed', []):
                print('WARNING checker brittle under %s -> %s' % (
                    c['site'], c['got']))
    rc = 0
    unlisted = ctx.unlisted()
    rdir = os.path.join(HERE, 'evidence', 'replay')
    if os.path.isdir(rdir):
        for fn in os.listdir(rdir):
            if fn.startswith(prop + '-'):
                os.unlink(os.path.join(rdir, fn))
    if unlisted:
        os.makedirs(rdir, exist_ok=True)
        for i, f in enumerate(unlisted):
            rpath = os.path.join(rdir, '%s-%d.json' % (prop, i))
            with open(rpath, 'w') as fp:
                json.dump(f.as_dict(), fp, indent=1)
            print('%s  %s  %s  %s' % (f.loc, f.rule, f.qualname, f.message))
            for step in f.path or []:
                print('    ' + step)
            print('VIOLATION property=%s replay=%s' % (prop, rpath))
        rc = 1
    write_evidence(ctx, mod.EXPLANATION, mod.NOT_DECIDED, ASSUMPTIONS, wall,
                   seed, extra_cov=extra)
    if selftest is not None and selftest['as_expected'] != selftest['variants']:
        for b in selftest['broken']:
            print('ANALYSIS-ERROR property=%s selftest variant %s: %s' %
                  (prop, b['id'], b['why']))
        return 2
    if rc == 0:
        print('OK property=%s (%.2fs)' % (prop, wall))
    return rc


if __name__ == '__main__':
    sys.exit(main())
