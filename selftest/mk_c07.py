import json
P='django_evolution/'
V=[]
def v(id, rule, file, old, new, expect='fire', note='', **kw):
    d=dict(id=id, property='C07', rule=rule, file=P+file, old=old, new=new, expect=expect, note=note); d.update(kw); V.append(d)
v('c07-commit-on-error','R-C07.1','utils/sql.py',"transaction.__exit__(exc_type, exc_value, traceback)","transaction.__exit__(None, None, None)",note='inner exit ignores the exception: commit on error')
v('c07-exit-drops-args','R-C07.1','utils/sql.py',"self.finish_transaction(*args)","self.finish_transaction()",note='__exit__ does not forward its exception')
v('c07-atomic-no-using','R-C07.2','utils/sql.py',"atomic(using=self._database)","atomic()")
v('c07-atomic-wrong-alias','R-C07.2','evolve/evolver.py',"atomic(using=self.database_name)","atomic(using='default')")
v('c07-save-in-loop','R-C07.3','evolve/evolver.py',"""                self.database_state.rescan_tables()

            self._save_project_sig(new_evolutions=new_evolutions)
""","""                self.database_state.rescan_tables()
                self._save_project_sig(new_evolutions=new_evolutions)

""",note='save per task class: a later class failing leaves recorded state')
v('c07-handler-swallows','R-C07.3','evolve/evolver.py',"""            evolving_failed.send(sender=self,
                                 exception=e)
            raise
""","""            evolving_failed.send(sender=self,
                                 exception=e)
            return
""")
v('c07-evolved-before-save','R-C07.3','evolve/evolver.py',"""            self._save_project_sig(new_evolutions=new_evolutions)
            self.evolved = True
""","""            self.evolved = True
            self._save_project_sig(new_evolutions=new_evolutions)
""")
v('c07-no-tag','R-C07.4','utils/sql.py',"            e.last_sql_statement = (statement, params)\n","            pass\n")
v('c07-wrong-tag','R-C07.4','utils/sql.py',"            e.last_sql_statement = (statement, params)\n","            e.last_sql_statement = (batch, None)\n")
v('c07-wrap-drops-statement','R-C07.4','evolve/purge_app_task.py',"""                    detailed_error=six.text_type(e),
                    last_sql_statement=getattr(e, 'last_sql_statement'))""","""                    detailed_error=six.text_type(e))""")
v('c07-commit-per-call','R-C07.5','utils/sql.py',"""                    if execute:
                        cursor.execute(statement, params)
""","""                    if execute:
                        cursor.execute(statement, params)

                if execute:
                    self.finish_transaction()
""",note='commit after every batch')
v('c07-second-writer','R-C07.3','evolve/purge_app_task.py',"""from django_evolution.mutators import AppMutator
""","""from django_evolution.mutators import AppMutator
from django_evolution.models import Evolution
""",edits=[{'file':P+'evolve/purge_app_task.py','old':"from django_evolution.mutators import AppMutator\n",'new':"from django_evolution.mutators import AppMutator\nfrom django_evolution.models import Evolution\n"},{'file':P+'evolve/purge_app_task.py','old':"        assert sql_executor\n\n        if self.evolution_required:",'new':"        assert sql_executor\n\n        Evolution.objects.filter(app_label=self.app_label).delete()\n\n        if self.evolution_required:"}],note='rows deleted outside the single save point')
v('c07-task-failure-logged','R-C07.6','evolve/base.py',"""            for task in tasks:
                task.execute(sql_executor=sql_executor, **kwargs)""","""            for task in tasks:
                try:
                    task.execute(sql_executor=sql_executor, **kwargs)
                except Exception:
                    import logging
                    logging.exception('Task %s failed', task)""",note='a failing purge task is logged and the run goes on to record success')
v('c07-batch-failure-continues','R-C07.6','evolve/evolve_app_task.py',"""                            batch_labels = set(
                                task_info.get('evolutions', []))

                            task.execute(""","""                            batch_labels = set(
                                task_info.get('evolutions', []))

                            try:
                                task.prepare_batch = True
                            except EvolutionExecutionError as e:
                                logger.error('%s', e)
                                raise

                            task.execute(""",expect='silent',note='re-raising handler is fine')
# silent refactors
v('c07-s-rename-local','R-C07.1','utils/sql.py',"""        transaction = self._latest_transaction

        if transaction:
            transaction.__exit__(exc_type, exc_value, traceback)""","""        txn = self._latest_transaction

        if txn:
            txn.__exit__(exc_type, exc_value, traceback)""",expect='silent')
v('c07-s-explicit-exit-params','R-C07.1','utils/sql.py',"""    def __exit__(self, *args, **kwargs):""","""    def __exit__(self, exc_type=None, exc_value=None, tb=None):""",expect='silent',edits=[{'file':P+'utils/sql.py','old':"    def __exit__(self, *args, **kwargs):",'new':"    def __exit__(self, exc_type=None, exc_value=None, tb=None):"},{'file':P+'utils/sql.py','old':"self.finish_transaction(*args)",'new':"self.finish_transaction(exc_type, exc_value, tb)"}])
v('c07-s-save-via-local','R-C07.3','evolve/evolver.py',"""            self._save_project_sig(new_evolutions=new_evolutions)
            self.evolved = True
""","""            evolutions_to_save = new_evolutions
            self._save_project_sig(new_evolutions=evolutions_to_save)
            self.evolved = True
""",expect='silent')
v('c07-s-wrap-local','R-C07.4','evolve/purge_app_task.py',"""            except Exception as e:
                raise EvolutionExecutionError(""","""            except Exception as e:
                failed_sql = getattr(e, 'last_sql_statement', None)
                raise EvolutionExecutionError(""",expect='silent',edits=[{'file':P+'evolve/purge_app_task.py','old':"            except Exception as e:\n                raise EvolutionExecutionError(",'new':"            except Exception as e:\n                failed_sql = getattr(e, 'last_sql_statement', None)\n                raise EvolutionExecutionError("},{'file':P+'evolve/purge_app_task.py','old':"last_sql_statement=getattr(e, 'last_sql_statement'))",'new':"last_sql_statement=failed_sql)"}])
json.dump(V, open(__import__('os').path.dirname(__import__('os').path.abspath(__file__))+'/variants_c07.json','w'), indent=1)
print(len(V))
