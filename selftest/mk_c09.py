import json, os
P='django_evolution/'
V=[]
def v(id, rule, file, old, new, expect='fire', note='', **kw):
    d=dict(id=id, property='C09', rule=rule, file=P+file, old=old, new=new, expect=expect, note=note); d.update(kw); V.append(d)
G='utils/graph.py'; U='utils/evolutions.py'
v('c09-before-reversed','R-C09.1',G,"""                self.add_dependency(
                    node_key=self._make_evolution_key(evolution_target),
                    dep_node_key=key)""","""                self.add_dependency(
                    node_key=key,
                    dep_node_key=self._make_evolution_key(evolution_target))""",note='BEFORE_EVOLUTIONS behaves as AFTER')
v('c09-after-migration-reversed','R-C09.1',G,"""                self.add_dependency(
                    node_key=key,
                    dep_node_key=self._make_migration_key(migration_target))""","""                self.add_dependency(
                    node_key=self._make_migration_key(migration_target),
                    dep_node_key=key)""")
v('c09-chain-reversed','R-C09.1',G,"""            self.add_dependency(node_key=node.key,
                                dep_node_key=prev_node.key)

            nodes.append(node)
            prev_node = node

        # Add the trailing anchor node.""","""            self.add_dependency(node_key=prev_node.key,
                                dep_node_key=node.key)

            nodes.append(node)
            prev_node = node

        # Add the trailing anchor node.""",note='sequence order within an app reversed')
v('c09-finalize-swapped','R-C09.1',G,"        for node_key, dep_node_key in self._pending_deps:","        for dep_node_key, node_key in self._pending_deps:")
v('c09-attr-key-crossed','R-C09.2',U,"""    return {
        'after_evolutions': set(getattr(module, 'AFTER_EVOLUTIONS', [])),
        'after_migrations': set(getattr(module, 'AFTER_MIGRATIONS', [])),
        'before_evolutions': set(getattr(module, 'BEFORE_EVOLUTIONS', [])),""","""    return {
        'after_evolutions': set(getattr(module, 'BEFORE_EVOLUTIONS', [])),
        'after_migrations': set(getattr(module, 'AFTER_MIGRATIONS', [])),
        'before_evolutions': set(getattr(module, 'AFTER_EVOLUTIONS', [])),""",note='app-level AFTER/BEFORE crossed')
v('c09-consumer-key-typo','R-C09.2',G,"deps.get('after_migrations', [])","deps.get('after_migration', [])")
v('c09-move-deps-before','R-C09.2','mutations/move_to_django_migrations.py',"            'after_migrations': set(","            'before_migrations': set(")
v('c09-deps-unsorted','R-C09.3',G,"""                        for dep in sorted(node.dependencies,
                                          key=lambda dep: dep.insert_index,
                                          reverse=True):""","""                        for dep in node.dependencies:""")
v('c09-leaves-unsorted','R-C09.3',G,"""        return sorted(
            [
                node
                for node in six.itervalues(self._nodes)
                if not node.required_by
            ],
            key=lambda node: node.insert_index)""","""        return [
            node
            for node in set(six.itervalues(self._nodes))
            if not node.required_by
        ]""")
v('c09-append-unguarded','R-C09.4',G,"""                        if node not in result_set:
                            result.append(node)
                            result_set.add(node)""","""                        result.append(node)
                        result_set.add(node)""",note='nodes shared by two leaves are emitted twice')
v('c09-no-set-update','R-C09.4',G,"""                            result.append(node)
                            result_set.add(node)""","""                            result.append(node)""")
v('c09-batch-drops-tail','R-C09.4',G,"""        if batch_nodes:
            yield batch_type, batch_nodes

    def _add_create_model""","""    def _add_create_model""")
v('c09-no-back-edge-raise','R-C09.5',G,"""                            if dep in processed and dep not in visited:""","""                            if False and dep in processed:""",expect='fire',note='hmm: guard constant-false') if False else None
v('c09-back-edge-raise-removed','R-C09.5',G,"""                            if dep in processed and dep not in visited:
                                # This dependency is still waiting on its
                                # own dependencies, which means it's one of
                                # this node's ancestors in the walk. These
                                # requirements can't all be satisfied.
                                raise EvolutionException(
                                    'A circular dependency was found: "%s" '
                                    'and "%s" each (directly or indirectly) '
                                    'require the other to be applied first.'
                                    % (node.key, dep.key))

""","",note='cycle reachable from a leaf is emitted in a requirement-breaking order again')
v('c09-back-edge-wrong-set','R-C09.5',G,"                            if dep in processed and dep not in visited:","                            if dep in result_set and dep not in visited:",note='tests the emitted set: never true for an ancestor')
v('c09-completeness-removed','R-C09.5',G,"""        if len(result) != len(self._nodes):""","""        if len(result) > len(self._nodes):""",note='never true: unreachable cycles silently dropped again')
v('c09-completeness-bypassed','R-C09.5',G,"""        if len(result) != len(self._nodes):""","""        if not result:
            return result

        if len(result) != len(self._nodes):""",note='the pure-cycle case returns [] before the check')
json.dump(V, open(os.path.dirname(os.path.abspath(__file__))+'/variants_c09.json','w'), indent=1)
print(len(V))
