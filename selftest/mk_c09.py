import json, os
P='django_evolution/'
V=[]
def v(id, rule, file, old, new, expect='fire', note='', **kw):
    d=dict(id=id, property='C09', rule=rule, file=P+file, old=old, new=new, expect=expect, note=note); d.update(kw); V.append(d)
G='utils/graph.py'; U='utils/evolutions.py'
v('c09-before-reversed','R-C09.1',G,"""                self.add_dependency(
                    node_key=self._make_evolution_key(evolution_target),
                    dep_node_key=key)""","""                self.add_dependency(
                    node_key=key,
                    dep_node_key=self._make_evolution_key(evolution_target))""",note='BEFORE_EVOLUTIONS behaves as AFTER')
v('c09-after-migration-reversed','R-C09.1',G,"""                self.add_dependency(
                    node_key=key,
                    dep_node_key=self._make_migration_key(migration_target))""","""                self.add_dependency(
                    node_key=self._make_migration_key(migration_target),
                    dep_node_key=key)""")
v('c09-chain-reversed','R-C09.1',G,"""            self.add_dependency(node_key=node.key,
                                dep_node_key=prev_node.key)

            nodes.append(node)
            prev_node = node

        # Add the trailing anchor node.""","""            self.add_dependency(node_key=prev_node.key,
                                dep_node_key=node.key)

            nodes.append(node)
            prev_node = node

        # Add the trailing anchor node.""",note='sequence order within an app reversed')
v('c09-finalize-swapped','R-C09.1',G,"        for node_key, dep_node_key in self._pending_deps:","        for dep_node_key, node_key in self._pending_deps:")
v('c09-attr-key-crossed','R-C09.2',U,"""    return {
        'after_evolutions': set(getattr(module, 'AFTER_EVOLUTIONS', [])),
        'after_migrations': set(getattr(module, 'AFTER_MIGRATIONS', [])),
        'before_evolutions': set(getattr(module, 'BEFORE_EVOLUTIONS', [])),""","""    return {
        'after_evolutions': set(getattr(module, 'BEFORE_EVOLUTIONS', [])),
        'after_migrations': set(getattr(module, 'AFTER_MIGRATIONS', [])),
        'before_evolutions': set(getattr(module, 'AFTER_EVOLUTIONS', [])),""",note='app-level AFTER/BEFORE crossed')
v('c09-consumer-key-typo','R-C09.2',G,"deps.get('after_migrations', [])","deps.get('after_migration', [])")
v('c09-move-deps-before','R-C09.2','mutations/move_to_django_migrations.py',"            'after_migrations': set(","            'before_migrations': set(")
v('c09-deps-unsorted','R-C09.3',G,"""                        stack += sorted(node.dependencies,
                                        key=lambda dep: dep.insert_index,
                                        reverse=True)""","""                        stack += node.dependencies""")
v('c09-leaves-unsorted','R-C09.3',G,"""        return sorted(
            [
                node
                for node in six.itervalues(self._nodes)
                if not node.required_by
            ],
            key=lambda node: node.insert_index)""","""        return [
            node
            for node in set(six.itervalues(self._nodes))
            if not node.required_by
        ]""")
v('c09-append-unguarded','R-C09.4',G,"""                        if node not in result_set:
                            result.append(node)
                            result_set.add(node)""","""                        result.append(node)
                        result_set.add(node)""",note='nodes shared by two leaves are emitted twice')
v('c09-no-set-update','R-C09.4',G,"""                            result.append(node)
                            result_set.add(node)""","""                            result.append(node)""")
v('c09-batch-drops-tail','R-C09.4',G,"""        if batch_nodes:
            yield batch_type, batch_nodes

    def _add_create_model""","""    def _add_create_model""")
# silent / fixed forms
v('c09-s-cycle-error-added','R-C09.5',G,"""                        # re-scan the dependencies again.
                        stack.append(node)""","""                        # re-scan the dependencies again.
                        if node in stack:
                            raise ValueError('Dependency cycle at %r' % node)

                        stack.append(node)""",expect='silent',note='an error path appears: the known finding goes stale, nothing new fires')
json.dump(V, open(os.path.dirname(os.path.abspath(__file__))+'/variants_c09.json','w'), indent=1)
print(len(V))
