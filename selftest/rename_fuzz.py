#!/venv/bin/python
"""Robustness fuzzer for the checker: behaviour-preserving *local renames*.

For every function of the pinned snapshot (selftest/pristine) and every local
variable assigned in it (parameters excluded - renaming those is not
behaviour-preserving for keyword callers), build a variant in which that one
local is renamed consistently (AST-level), run every property check on it and
compare the set of unlisted findings / analysis errors with the pristine
run.  Any difference is *brittleness of the checker*, not a defect of the
code: the property still holds on the variant.

usage: rename_fuzz.py [--jobs N] [--only substring] [--props C01,C02]
Writes selftest/rename_fuzz_report.json.
"""
from __future__ import annotations

import ast
import json
import os
import shutil
import sys
import tempfile
import time
from concurrent.futures import ProcessPoolExecutor

VERIF = os.path.dirname(os.path.dirname(os.path.abspath(__file__)))
PRISTINE = os.path.join(VERIF, 'selftest', 'pristine')
sys.path.insert(0, VERIF)
PROPS = ['C01', 'C02', 'C03', 'C05', 'C06', 'C07', 'C08', 'C09', 'C10',
         'C11', 'C12', 'C13', 'C14', 'C15', 'C16', 'C17', 'C18']


def locals_of(fn):
    params = {a.arg for a in fn.args.posonlyargs + fn.args.args +
              fn.args.kwonlyargs}
    if fn.args.vararg:
        params.add(fn.args.vararg.arg)
    if fn.args.kwarg:
        params.add(fn.args.kwarg.arg)
    declared = set()
    names = []
    for n in ast.walk(fn):
        if isinstance(n, (ast.Global, ast.Nonlocal)):
            declared |= set(n.names)
    for n in ast.walk(fn):
        if isinstance(n, ast.Name) and isinstance(n.ctx, ast.Store) and \
                n.id not in params and n.id not in declared and \
                n.id not in names and not n.id.startswith('__'):
            names.append(n.id)
        if isinstance(n, ast.ExceptHandler) and n.name and \
                n.name not in names and n.name not in params:
            names.append(n.name)
    # nested function definitions' own locals are handled when visiting them.
    # A name that is also the parameter of a nested lambda / def is skipped:
    # the renamer rewrites Name nodes only, so `lambda node: node.x` would
    # become `lambda node: node_rn.x` - a NameError the fuzzer introduced
    # itself (hygiene rule .90 reported exactly that for get_leaf_nodes).
    nested_params = set()
    for n in ast.walk(fn):
        if n is not fn and isinstance(n, (ast.Lambda, ast.FunctionDef,
                                          ast.AsyncFunctionDef)):
            a = n.args
            nested_params |= {x.arg for x in a.posonlyargs + a.args +
                              a.kwonlyargs}
            if a.vararg:
                nested_params.add(a.vararg.arg)
            if a.kwarg:
                nested_params.add(a.kwarg.arg)
    return [n for n in names if n not in nested_params]


class Renamer(ast.NodeTransformer):
    def __init__(self, old, new):
        self.old, self.new = old, new

    def visit_Name(self, node):
        if node.id == self.old:
            node.id = self.new
        return node

    def visit_ExceptHandler(self, node):
        if node.name == self.old:
            node.name = self.new
        self.generic_visit(node)
        return node


def enumerate_targets(only=None):
    out = []
    for dirpath, _, files in os.walk(os.path.join(PRISTINE, 'django_evolution')):
        for fn in sorted(files):
            if not fn.endswith('.py'):
                continue
            path = os.path.join(dirpath, fn)
            rel = os.path.relpath(path, PRISTINE)
            if rel.startswith('django_evolution/compat/six'):
                continue
            tree = ast.parse(open(path).read())
            for node in ast.walk(tree):
                if isinstance(node, (ast.FunctionDef, ast.AsyncFunctionDef)):
                    for name in locals_of(node):
                        key = '%s::%s@%d::%s' % (rel, node.name, node.lineno,
                                                 name)
                        if only and only not in key:
                            continue
                        out.append((rel, node.name, node.lineno, name))
    return out


def verdicts(root, props):
    from check import run_check
    from sa.program import AnalysisError
    out = {}
    for p in props:
        try:
            ctx, mod, wall = run_check(p, 'quick', root)
            out[p] = sorted((f.rule, f.qualname, f.key)
                            for f in ctx.unlisted())
        except AnalysisError as e:
            out[p] = ['ANALYSIS-ERROR: %s' % str(e)[:160]]
        except Exception as e:
            out[p] = ['CRASH: %s: %s' % (type(e).__name__, str(e)[:160])]
    return out


def run_one(args):
    rel, fname, lineno, name, props, base = args
    tmp = tempfile.mkdtemp(prefix='sa_rnf_')
    try:
        root = os.path.join(tmp, 'r')
        shutil.copytree(PRISTINE, root)
        path = os.path.join(root, rel)
        tree = ast.parse(open(path).read())
        done = False
        for node in ast.walk(tree):
            if isinstance(node, (ast.FunctionDef, ast.AsyncFunctionDef)) and \
                    node.name == fname and node.lineno == lineno:
                Renamer(name, name + '_rn').visit(node)
                done = True
        if not done:
            return None
        src = ast.unparse(tree)
        compile(src, path, 'exec')
        open(path, 'w').write(src)
        got = verdicts(root, props)
        diff = {p: got[p] for p in props if got[p] != base[p]}
        return {'target': '%s::%s::%s' % (rel, fname, name), 'diff': diff}
    finally:
        shutil.rmtree(tmp, ignore_errors=True)


def unparse_baseline(props):
    """Baseline on a copy in which every file went through ast.unparse (so
    that the only difference of a variant is the rename)."""
    tmp = tempfile.mkdtemp(prefix='sa_rnf_base_')
    try:
        root = os.path.join(tmp, 'r')
        shutil.copytree(PRISTINE, root)
        return verdicts(root, props)
    finally:
        shutil.rmtree(tmp, ignore_errors=True)


def main():
    jobs = 16
    only = None
    props = PROPS
    a = sys.argv[1:]
    if '--jobs' in a:
        jobs = int(a[a.index('--jobs') + 1])
    if '--only' in a:
        only = a[a.index('--only') + 1]
    if '--props' in a:
        props = a[a.index('--props') + 1].split(',')
    t0 = time.time()
    base = unparse_baseline(props)
    targets = enumerate_targets(only)
    print('%d rename variants, %d properties, %d jobs' % (len(targets),
                                                          len(props), jobs))
    work = [(rel, fn, ln, nm, props, base) for rel, fn, ln, nm in targets]
    results = []
    with ProcessPoolExecutor(max_workers=jobs) as ex:
        for i, r in enumerate(ex.map(run_one, work, chunksize=4)):
            if r is not None:
                results.append(r)
    brittle = [r for r in results if r['diff']]
    report = {'variants': len(results), 'brittle': len(brittle),
              'secs': round(time.time() - t0), 'cases': brittle}
    json.dump(report, open(os.path.join(VERIF, 'selftest',
                                        'rename_fuzz_report.json'), 'w'),
              indent=1)
    print('%d variants, %d change a verdict (%.0fs)' % (
        len(results), len(brittle), time.time() - t0))
    for r in brittle[:200]:
        print(' ', r['target'], {p: v[:2] for p, v in r['diff'].items()})


if __name__ == '__main__':
    main()
