import json, os
P='django_evolution/'
V=[]
def v(id, rule, file, old, new, expect='fire', note='', **kw):
    d=dict(id=id, property='C03', rule=rule, file=P+file, old=old, new=new, expect=expect, note=note); d.update(kw); V.append(d)
A='mutators/app_mutator.py'
v('c03-no-copy','R-C03.1',A,"""        mutation_batches = self._create_mutation_batches(
            copy.deepcopy(mutations))""","""        mutation_batches = self._create_mutation_batches(mutations)""")
v('c03-shallow-copy','R-C03.1',A,"""        mutation_batches = self._create_mutation_batches(
            copy.deepcopy(mutations))""","""        mutation_batches = self._create_mutation_batches(list(mutations))""",note='new list, same mutation objects')
v('c03-copy-after-use','R-C03.1',A,"""        mutation_batches = self._create_mutation_batches(
            copy.deepcopy(mutations))""","""        mutation_batches = self._create_mutation_batches(mutations)
        mutations = copy.deepcopy(mutations)""")
v('c03-mutation-caches-on-self','R-C03.5','mutations/change_field.py',"""        changed_field_attrs = self._get_changed_field_attrs(field_sig)
""","""        changed_field_attrs = self._get_changed_field_attrs(field_sig)
        self.field_attrs.pop('related_model', None)
""",note='mutate() edits the definition: second processing differs')
v('c03-rename-normalises-self','R-C03.5','mutations/rename_field.py',"""        field_sig.field_name = self.new_field_name

        if issubclass(field_sig.field_type, models.ManyToManyField):""","""        field_sig.field_name = self.new_field_name
        self.field_name = self.new_field_name

        if issubclass(field_sig.field_type, models.ManyToManyField):""")
v('c03-finish-op-only-for-merged','R-C03.2','db/common.py',"""        mutator.finish_op(op)

        return sql_result""","""        if sql_result is not prev_sql_result:
            mutator.finish_op(op)

        return sql_result""",note='merged ops are not re-simulated: later ops see a stale signature')
v('c03-finish-op-noop','R-C03.2','mutators/model_mutator.py',"        self.run_simulation(op['mutation'])","        if not self.finalized:\n            self.run_simulation(op['mutation'])")
v('c03-replay-no-reset','R-C03.3',A,"        self.project_sig = self._orig_project_sig\n","")
v('c03-orig-alias','R-C03.3',A,"self._orig_project_sig = copy.deepcopy(self.project_sig)","self._orig_project_sig = self.project_sig")
v('c03-regroup-unsorted','R-C03.4',A,"for model_name in sorted(model_names)","for model_name in model_names")
# silent
v('c03-s-elementwise-copy','R-C03.1',A,"""        mutation_batches = self._create_mutation_batches(
            copy.deepcopy(mutations))""","""        private_mutations = [copy.deepcopy(_mutation) for _mutation in mutations]
        mutation_batches = self._create_mutation_batches(private_mutations)""",expect='silent')
v('c03-s-copy-local','R-C03.1',A,"""        mutation_batches = self._create_mutation_batches(
            copy.deepcopy(mutations))""","""        mutations_copy = copy.deepcopy(mutations)
        mutation_batches = self._create_mutation_batches(mutations_copy)""",expect='silent')
v('c03-s-clone-state','R-C03.3',A,"self._orig_project_sig = copy.deepcopy(self.project_sig)","self._orig_project_sig = self.project_sig.clone()",expect='silent')
json.dump(V, open(os.path.dirname(os.path.abspath(__file__))+'/variants_c03.json','w'), indent=1)
print(len(V))
