import json, os
P='django_evolution/'
V=[]
def v(id, rule, file, old, new, expect='fire', note='', **kw):
    d=dict(id=id, property='C05', rule=rule, file=P+file, old=old, new=new, expect=expect, note=note); d.update(kw); V.append(d)
G='signature.py'; D='diff.py'
v('c05-new-meta-key-unhandled','R-C05.1',G,"            meta_changed.append('db_table_comment')","            meta_changed.append('table_comment')",note='diff reports a key nobody hints')
v('c05-consumer-typo','R-C05.1',D,"model_change.get('deleted', [])","model_change.get('removed', [])",note='deleted fields are never hinted')
v('c05-diff-new-top-key','R-C05.1',G,"                               ('deleted', deleted_fields),","                               ('removed', deleted_fields),")
v('c05-changemeta-wrong-attr','R-C05.2','mutations/change_meta.py',"            model_sig.index_sigs = index_sigs","            model_sig.indexes = index_sigs",note='simulate writes an attribute the diff never compares')
v('c05-changemeta-unique-not-applied','R-C05.2','mutations/change_meta.py',"            model_sig.apply_unique_together(self.new_value)","            model_sig.unique_together_applied = True",note='unique_together value itself not written')
v('c05-changefield-no-type','R-C05.2','mutations/change_field.py',"""        if self.field_type is not None:
            field_sig.field_type = self.field_type
""","")
v('c05-addfield-no-split','R-C05.2','mutations/add_field.py',"""        field_attrs = self.field_attrs.copy()
        related_model = field_attrs.pop('related_model', None)

        field_sig = FieldSignature(""","""        field_attrs = self.field_attrs.copy()
        related_model = field_attrs.get('related_model', None)

        field_sig = FieldSignature(""")
v('c05-deletemodel-noop','R-C05.2','mutations/delete_model.py',"        app_sig.remove_model_sig(self.model_name)","        app_sig.get_model_sig(self.model_name)")
v('c05-eq-ignores-related','R-C05.3',G,"""                dict.__eq__(self.field_attrs, other.field_attrs) and
                self.related_model == other.related_model)""","""                dict.__eq__(self.field_attrs, other.field_attrs))""")
v('c05-diff-ignores-comment','R-C05.3',G,"""        if self.db_table_comment != old_model_sig.db_table_comment:
            meta_changed.append('db_table_comment')
""","",note='(also trips table rules elsewhere) eq compares db_table_comment, diff no longer does')
v('c05-clone-drops-tablespace','R-C05.4',G,"""            db_tablespace=self.db_tablespace,
            db_table_comment=self.db_table_comment,
            index_together=self.index_together,""","""            db_table_comment=self.db_table_comment,
            index_together=self.index_together,""")
v('c05-clone-shares-attrs','R-C05.4',G,"""        return FieldSignature(field_name=self.field_name,
                              field_type=self.field_type,
                              field_attrs=deepcopy(self.field_attrs),""","""        return FieldSignature(field_name=self.field_name,
                              field_type=self.field_type,
                              field_attrs=self.field_attrs,""")
v('c05-clone-shares-index-sigs','R-C05.4',G,"            cloned_sig.add_index_sig(index_sig.clone())","            cloned_sig.add_index_sig(index_sig)")
# silent
v('c05-s-eq-reordered','R-C05.3',G,"""                self.field_name == other.field_name and
                self.field_type is other.field_type and""","""                self.field_type is other.field_type and
                self.field_name == other.field_name and""",expect='silent')
v('c05-hash-through-repr','R-C05.6',G,"        return hash((self.name, self.type))","        return hash(repr(self))",note='the defect fixed in 86f2566: repr prints attrs in key order, __eq__ ignores key order')
v('c05-hash-index-name','R-C05.6',G,"        return hash(tuple(self.fields or ()))","        return hash((self.name, tuple(self.fields or ())))",note='IndexSignature.__eq__ treats empty names as equal')
v('c05-hash-uncompared-state','R-C05.6',G,"        return hash((self.name, self.type))","        return hash((self.name, self.type, id(self)))",note='identity in the hash of a class with structural equality')
v('c05-s-hash-name-only','R-C05.6',G,"        return hash((self.name, self.type))","        return hash(self.name)",expect='silent')
json.dump(V, open(os.path.dirname(os.path.abspath(__file__))+'/variants_c05.json','w'), indent=1)
print(len(V))
