import json, os
P='django_evolution/'
V=[]
def v(id, rule, file, old, new, expect='fire', note='', **kw):
    d=dict(id=id, property='C17', rule=rule, file=P+file, old=old, new=new, expect=expect, note=note); d.update(kw); V.append(d)
EV='evolve/evolver.py'; T='evolve/evolve_app_task.py'
v('c17-no-failed-signal','R-C17.1',EV,"""            evolving_failed.send(sender=self,
                                 exception=e)
            raise""","""            raise""")
v('c17-evolving-in-try','R-C17.1',EV,"""        evolving.send(sender=self)

        try:
            new_evolutions = []
""","""        try:
            evolving.send(sender=self)
            new_evolutions = []
""")
v('c17-evolving-before-prepare','R-C17.1',EV,"""        self._prepare_tasks()

        evolving.send(sender=self)
""","""        evolving.send(sender=self)

        self._prepare_tasks()
""",note='a prepare failure would emit evolving with no counterpart')
v('c17-evolved-in-try','R-C17.1',EV,"""            self.evolved = True
        except Exception as e:""","""            self.evolved = True
            evolved.send(sender=self)
        except Exception as e:""",edits=[{'file':P+EV,'old':"            self.evolved = True\n        except Exception as e:",'new':"            self.evolved = True\n            evolved.send(sender=self)\n        except Exception as e:"},{'file':P+EV,'old':"            raise\n\n        evolved.send(sender=self)\n",'new':"            raise\n"}],note='a receiver of evolved raising makes the run emit both evolved and evolving_failed')
v('c17-narrow-handler','R-C17.1',EV,"        except Exception as e:\n            evolving_failed.send","        except EvolutionException as e:\n            evolving_failed.send",note='non-evolution errors (database errors) leave without evolving_failed')
v('c17-early-return','R-C17.1',EV,"""            new_evolutions = []

            for task_cls, tasks""","""            new_evolutions = []

            if not self._tasks_by_class:
                return

            for task_cls, tasks""",note='nothing-to-do run emits evolving but neither counterpart')
v('c17-applied-dropped','R-C17.2',T,"""            applied_evolution.send(sender=evolver,
                                   task=self,
                                   evolutions=evolutions)
""","""            if evolutions:
                applied_evolution.send(sender=evolver,
                                       task=self,
                                       evolutions=evolutions)
""")
v('c17-applied-before-sql','R-C17.2',T,"""            applying_evolution.send(sender=evolver,
                                    task=self,
                                    evolutions=evolutions)

            try:""","""            applying_evolution.send(sender=evolver,
                                    task=self,
                                    evolutions=evolutions)
            applied_evolution.send(sender=evolver,
                                   task=self,
                                   evolutions=evolutions)

            try:""",edits=[{'file':P+T,'old':"""            applying_evolution.send(sender=evolver,
                                    task=self,
                                    evolutions=evolutions)

            try:""",'new':"""            applying_evolution.send(sender=evolver,
                                    task=self,
                                    evolutions=evolutions)
            applied_evolution.send(sender=evolver,
                                   task=self,
                                   evolutions=evolutions)

            try:"""},{'file':P+T,'old':"""                    last_sql_statement=getattr(e, 'last_sql_statement'))

            applied_evolution.send(sender=evolver,
                                   task=self,
                                   evolutions=evolutions)
""",'new':"""                    last_sql_statement=getattr(e, 'last_sql_statement'))
"""}])
v('c17-payload-differs','R-C17.2',T,"""            applied_evolution.send(sender=evolver,
                                   task=self,
                                   evolutions=evolutions)""","""            applied_evolution.send(sender=evolver,
                                   task=self,
                                   evolutions=self.new_evolutions)""")
v('c17-created-swallow','R-C17.2',T,"""                raise EvolutionExecutionError(
                    _('Error creating database models: %s') % e,
                    detailed_error=detailed_error,
                    last_sql_statement=last_sql_statement)
""","""                logger.error('Error creating database models: %s', e)
                return None
""",note='a path returns after creating_models without created_models')
v('c17-progress-swapped','R-C17.2','utils/migrations.py',"if action == 'apply_start':","if action == 'apply_success':",edits=[{'file':P+'utils/migrations.py','old':"if action == 'apply_start':",'new':"if action == 'apply_sucess_':"},{'file':P+'utils/migrations.py','old':"elif action == 'apply_success':",'new':"elif action == 'apply_start':"},{'file':P+'utils/migrations.py','old':"if action == 'apply_sucess_':",'new':"if action == 'apply_success':"}])
v('c17-no-callback','R-C17.2','utils/migrations.py',"            progress_callback=self._on_progress)","            progress_callback=None)")
v('c17-foreign-sender','R-C17.3','evolve/purge_app_task.py',"from django_evolution.mutators import AppMutator\n","from django_evolution.mutators import AppMutator\nfrom django_evolution.signals import applied_evolution\n",edits=[{'file':P+'evolve/purge_app_task.py','old':"from django_evolution.mutators import AppMutator\n",'new':"from django_evolution.mutators import AppMutator\nfrom django_evolution.signals import applied_evolution\n"},{'file':P+'evolve/purge_app_task.py','old':"                    last_sql_statement=getattr(e, 'last_sql_statement'))\n",'new':"                    last_sql_statement=getattr(e, 'last_sql_statement'))\n\n            applied_evolution.send(sender=self.evolver, task=self,\n                                   evolutions=[])\n"}],note='applied without applying')
v('c17-lock-not-released-on-failure','R-C17.4','management/__init__.py',"@receiver([evolved, evolving_failed])","@receiver(evolved)")
v('c17-lock-double-inc','R-C17.4','management/__init__.py',"    _evolve_lock += 1","    _evolve_lock += 2")
v('c17-batch-announces-all','R-C17.5',T,"""                            task.execute(
                                sql_executor=sql_executor,
                                sql=task_sql,
                                evolutions=[
                                    evolution
                                    for evolution in task.new_evolutions
                                    if evolution.label in batch_labels
                                ],
                                **kwargs)""","""                            task.execute(
                                sql_executor=sql_executor,
                                sql=task_sql,
                                **kwargs)""",note='the original defect F-C17')
v('c17-batch-announces-task-list','R-C17.5',T,"""                                evolutions=[
                                    evolution
                                    for evolution in task.new_evolutions
                                    if evolution.label in batch_labels
                                ],""","""                                evolutions=list(task.new_evolutions),""")
# silent
v('c17-s-send-robust','R-C17.1',EV,"        evolved.send(sender=self)","        evolved.send_robust(sender=self)",expect='silent')
v('c17-s-handler-local','R-C17.1',EV,"""            evolving_failed.send(sender=self,
                                 exception=e)
            raise""","""            failure = e
            evolving_failed.send(sender=self,
                                 exception=failure)
            raise""",expect='silent')
v('c17-s-else-form','R-C17.2',T,"""        if sql:
            applying_evolution.send(sender=evolver,""","""        if not sql:
            return

        if True:
            applying_evolution.send(sender=evolver,""",expect='silent')
json.dump(V, open(os.path.dirname(os.path.abspath(__file__))+'/variants_c17.json','w'), indent=1)
print(len(V))
