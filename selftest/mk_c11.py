import json, os
P='django_evolution/'
V=[]
def v(id, rule, file, old, new, expect='fire', note='', **kw):
    d=dict(id=id, property='C11', rule=rule, file=P+file, old=old, new=new, expect=expect, note=note); d.update(kw); V.append(d)
RA='mutations/rename_app_label.py'; RM='mutations/rename_model.py'; RF='mutations/rename_field.py'
v('c11-split-index-bug','R-C11.1',RA,"parts = cur_field_sig.related_model.split('.', 1)\n","parts = cur_field_sig.related_model.split('.', 1)[1]\n",note='the original defect')
v('c11-unpack-component','R-C11.1','mutations/add_field.py',"""        related_app_label, related_model_name = \\
            self.field_attrs['related_model'].split('.')""","""        related_app_label, related_model_name = \\
            self.field_attrs['related_model'].split('.')[0]""")
v('c11-rewrite-own-app-only','R-C11.2',RM,"        for cur_app_sig in simulation.project_sig.app_sigs:\n","        for cur_app_sig in [app_sig]:\n",note='references from other apps keep the old model name')
v('c11-rewrite-fk-only','R-C11.2',RM,"                    if cur_field_sig.related_model == old_related_model:","                    if (cur_field_sig.related_model == old_related_model and\n                        cur_field_sig.field_type is not None and\n                        not cur_field_sig.field_attrs.get('db_table')):",note='M2M fields with a custom table are skipped')
v('c11-applabel-no-rewrite','R-C11.2',RA,"""                            cur_field_sig.related_model = \\
                                '%s.%s' % (new_app_label, parts[1])""","""                            pass""")
v('c11-optimiser-no-related-rewrite','R-C11.3','mutators/app_mutator.py',"""                                mutation.field_attrs['related_model'] = (
                                    '%s.%s'
                                    % (
                                        new_app_label or app_label,
                                        new_model_name or related_model_name,
                                    ))""","""                                pass""")
v('c11-rename-model-keeps-old','R-C11.4',RM,"        app_sig.remove_model_sig(self.old_model_name)\n","")
v('c11-rename-model-no-table','R-C11.4',RM,"        model_sig.table_name = self.db_table\n","")
v('c11-rename-field-in-place','R-C11.4',RF,"""        field_sig = simulation.get_field_sig(self.model_name,
                                             self.old_field_name).clone()""","""        field_sig = simulation.get_field_sig(self.model_name,
                                             self.old_field_name)""")
v('c11-rename-field-removes-new','R-C11.4',RF,"        model_sig.remove_field_sig(self.old_field_name)","        model_sig.remove_field_sig(self.new_field_name)")
# silent
v('c11-s-unpack-form','R-C11.1',RA,"""                        parts = cur_field_sig.related_model.split('.', 1)

                        if (parts[0] == old_app_label and
                            (model_names is None or
                             parts[1] in model_names)):
                            cur_field_sig.related_model = \\
                                '%s.%s' % (new_app_label, parts[1])""","""                        ref_app_label, ref_model_name = \\
                            cur_field_sig.related_model.split('.', 1)

                        if (ref_app_label == old_app_label and
                            (model_names is None or
                             ref_model_name in model_names)):
                            cur_field_sig.related_model = \\
                                '%s.%s' % (new_app_label, ref_model_name)""",expect='silent')
json.dump(V, open(os.path.dirname(os.path.abspath(__file__))+'/variants_c11.json','w'), indent=1)
print(len(V))
