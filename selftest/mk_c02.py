import json, os
P='django_evolution/'
V=[]
def v(id, rule, file, old, new, expect='fire', note='', **kw):
    d=dict(id=id, property='C02', rule=rule, file=P+file, old=old, new=new, expect=expect, note=note); d.update(kw); V.append(d)
S='db/sqlite3.py'; C='db/common.py'
v('c02-values-sorted','R-C02.1',S,"""                    for _value in six.itervalues(field_values)""","""                    for _value in sorted(six.itervalues(field_values))""",note='value list order no longer matches column list')
v('c02-columns-from-new-fields','R-C02.1',S,"""                    for column in six.iterkeys(field_values)""","""                    for column in [_f.column for _f in new_fields]""",note='two containers')
v('c02-map-pop','R-C02.1',S,"""        field_initials = {}

        # If we have any new fields""","""        field_values.pop(model._meta.pk.column, None)
        field_initials = {}

        # If we have any new fields""",note='pk not copied')
v('c02-skip-nullable','R-C02.2',S,"            if old_column not in deleted_columns:\n                new_column","            if old_column not in deleted_columns and not field.null:\n                new_column",note='nullable columns silently not copied')
v('c02-no-rename-follow','R-C02.2',S,"                new_column = renamed_columns.get(old_column, old_column)\n","                new_column = old_column\n")
v('c02-select-new-name','R-C02.2',S,"                field_values[new_column] = qn(old_column)","                field_values[new_column] = qn(new_column)")
v('c02-fill-from-new-fields','R-C02.2',S,"        for field in old_fields:\n            old_column = field.column","        for field in new_fields:\n            old_column = field.column")
v('c02-no-coalesce','R-C02.3',S,"""                            field_values[column] = \\
                                'coalesce(%s, %%s)' % qn(column)""","""                            field_values[column] = '%s'""",note='initial overwrites existing non-NULL values')
v('c02-params-append-order','R-C02.4',S,"""            tuple(
                field_initials[column]
                for column in six.iterkeys(field_values)
                if column in field_initials
            )""","""            tuple(six.itervalues(field_initials))""",note='the original defect: parameters in mutation order')
v('c02-param-without-placeholder','R-C02.4',S,"""                        else:
                            field_values[column] = '%s'
""","""                        elif not embed_initial:
                            pass
""",note='a parameter is stored but no placeholder is emitted')
v('c02-drop-before-copy','R-C02.5',S,"""        sql += evolver.delete_table(table_name).to_sql()
        sql += evolver.rename_table""","""        sql += evolver.rename_table""",edits=[{'file':P+S,'old':"        sql += evolver.delete_table(table_name).to_sql()\n",'new':""},{'file':P+S,'old':"        # Step 2: Copy over any data from the old table into the new one.\n",'new':"        sql += evolver.delete_table(table_name).to_sql()\n\n        # Step 2: Copy over any data from the old table into the new one.\n"}])
v('c02-drop-wrong-table','R-C02.5',S,"evolver.delete_table(table_name).to_sql()","evolver.delete_table(TEMP_TABLE_NAME).to_sql()")
v('c02-update-all-rows','R-C02.6',C,"""                    'UPDATE %(table_name)s SET %(column_name)s = %%s'
                    ' WHERE %(column_name)s IS NULL;'""","""                    'UPDATE %(table_name)s SET %(column_name)s = %%s;'""")
v('c02-update-wrong-guard','R-C02.6',C,"""                'UPDATE %(table_name)s SET %(column_name)s = %%s'
                ' WHERE %(column_name)s IS NULL;'""","""                'UPDATE %(table_name)s SET %(column_name)s = %%s'
                ' WHERE %(column_name)s IS NOT NULL;'""")
# silent
v('c02-s-rename-map','R-C02.1',S,"field_values","copy_map",expect='silent',edits=[{'file':P+S,'old':"field_values",'new':"copy_map",'count':9}])
v('c02-s-items-params','R-C02.4',S,"""            tuple(
                field_initials[column]
                for column in six.iterkeys(field_values)
                if column in field_initials
            )""","""            tuple(
                field_initials[column]
                for column, _unused in six.iteritems(field_values)
                if column in field_initials
            )""",expect='silent')
json.dump(V, open(os.path.dirname(os.path.abspath(__file__))+'/variants_c02.json','w'), indent=1)
print(len(V))
