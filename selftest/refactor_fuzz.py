#!/venv/bin/python
"""Robustness fuzzer for the checker: behaviour-preserving refactorings other
than local renames (see rename_fuzz.py for those).

Transformations (each variant applies ONE transformation at ONE site of the
pinned snapshot, everything else is byte-identical after ast.unparse):

  neg-if     if C: A else: B        ->  if not C: B else: A
  swap-and   X and Y / X or Y       ->  Y and X / Y or X   (only when both
             operands are side-effect free: names, attributes, constants,
             comparisons and `not` of those, AND the value is only tested for
             truth or is boolean-valued: `expressions or None` is not
             `None or expressions` - the first version of this fuzzer swapped
             those too and R-C06.9 rightly reported the result)
  noop       insert `assert True` as first statement of a function body
  six        per file: six.iteritems(d) -> d.items(), itervalues/iterkeys
             likewise
  super      per file: super(Cls, self) -> super()
  else-wrap  if C: ...; return/raise/continue/break   (no else) followed by
             statements S in the same block  ->  if C: ... else: S
  else-unwrap if C: ...jump else: S      ->  if C: ...jump ; S
  ret-temp   return <call or compound expr>  ->  _rv = <expr>; return _rv
  yoda       x == CONST / x != CONST     ->  CONST == x / CONST != x

For every variant all property checks run; a changed set of unlisted findings
or an analysis error is brittleness of the checker.

usage: refactor_fuzz.py [--jobs N] [--kinds neg-if,swap-and,...] [--only s]
Writes selftest/refactor_fuzz_report.json.
"""
from __future__ import annotations

import ast
import copy
import json
import os
import shutil
import sys
import tempfile
import time
from concurrent.futures import ProcessPoolExecutor

VERIF = os.path.dirname(os.path.dirname(os.path.abspath(__file__)))
PRISTINE = os.path.join(VERIF, 'selftest', 'pristine')
sys.path.insert(0, VERIF)
from selftest.rename_fuzz import PROPS, verdicts, unparse_baseline  # noqa


def _pure(e) -> bool:
    if isinstance(e, (ast.Name, ast.Constant)):
        return True
    if isinstance(e, ast.Attribute):
        return _pure(e.value)
    if isinstance(e, ast.Compare):
        return _pure(e.left) and all(_pure(c) for c in e.comparators)
    if isinstance(e, ast.UnaryOp) and isinstance(e.op, ast.Not):
        return _pure(e.operand)
    if isinstance(e, (ast.Tuple, ast.List)):
        return all(_pure(x) for x in e.elts)
    return False


JUMPS = (ast.Return, ast.Raise, ast.Continue, ast.Break)


def _boolean_valued(e) -> bool:
    """The expression always evaluates to True/False."""
    if isinstance(e, ast.Compare):
        return True
    if isinstance(e, ast.UnaryOp) and isinstance(e.op, ast.Not):
        return True
    if isinstance(e, ast.Constant) and isinstance(e.value, bool):
        return True
    if isinstance(e, ast.BoolOp):
        return all(_boolean_valued(v) for v in e.values)
    return False


def _truthiness_contexts(tree):
    """ids of the expressions whose value is only tested for truth (swapping
    the operands of `x or y` elsewhere changes the VALUE: `[] or None` is
    None, `None or []` is [])."""
    ok = set()
    for n in ast.walk(tree):
        tests = []
        if isinstance(n, (ast.If, ast.While, ast.IfExp, ast.Assert)):
            tests.append(n.test)
        if isinstance(n, ast.UnaryOp) and isinstance(n.op, ast.Not):
            tests.append(n.operand)
        if isinstance(n, ast.comprehension):
            tests.extend(n.ifs)
        work = list(tests)
        while work:
            t = work.pop()
            ok.add(id(t))
            if isinstance(t, ast.BoolOp):
                work.extend(t.values)
    return ok


def sites(tree, kinds):
    """[(kind, index)] - index is the position in ast.walk order."""
    out = []
    truth = _truthiness_contexts(tree) if 'swap-and' in kinds else set()
    for i, n in enumerate(ast.walk(tree)):
        if 'neg-if' in kinds and isinstance(n, ast.If) and n.orelse and not (
                len(n.orelse) == 1 and isinstance(n.orelse[0], ast.If)):
            out.append(('neg-if', i))
        if 'swap-and' in kinds and isinstance(n, ast.BoolOp) and \
                len(n.values) == 2 and all(_pure(v) for v in n.values) and \
                (id(n) in truth or _boolean_valued(n)):
            out.append(('swap-and', i))
        if 'noop' in kinds and isinstance(n, (ast.FunctionDef,
                                              ast.AsyncFunctionDef)):
            out.append(('noop', i))
        if 'else-wrap' in kinds or 'else-unwrap' in kinds:
            for field in ('body', 'orelse', 'finalbody'):
                blk = getattr(n, field, None)
                if not (isinstance(blk, list) and blk and
                        isinstance(blk[0], ast.stmt)):
                    continue
                for j, st in enumerate(blk):
                    if not (isinstance(st, ast.If) and st.body and
                            isinstance(st.body[-1], JUMPS)):
                        continue
                    if 'else-wrap' in kinds and not st.orelse and \
                            j + 1 < len(blk):
                        out.append(('else-wrap', (i, field, j)))
                    if 'else-unwrap' in kinds and st.orelse and not (
                            len(st.orelse) == 1 and
                            isinstance(st.orelse[0], ast.If)):
                        out.append(('else-unwrap', (i, field, j)))
        if 'ret-temp' in kinds and isinstance(n, ast.Return) and \
                n.value is not None and not isinstance(
                    n.value, (ast.Name, ast.Constant)):
            out.append(('ret-temp', i))
        if 'yoda' in kinds and isinstance(n, ast.Compare) and \
                len(n.ops) == 1 and isinstance(n.ops[0], (ast.Eq, ast.NotEq)) \
                and isinstance(n.comparators[0], ast.Constant) and \
                n.comparators[0].value is not None and _pure(n.left) and \
                not isinstance(n.left, ast.Constant):
            out.append(('yoda', i))
    return out


def _replace_stmt(tree, old, new_list):
    for n in ast.walk(tree):
        for field in ('body', 'orelse', 'finalbody'):
            blk = getattr(n, field, None)
            if isinstance(blk, list) and old in blk:
                k = blk.index(old)
                blk[k:k + 1] = new_list
                return True
    return False


def transform(tree, kind, index):
    sub = None
    if isinstance(index, (tuple, list)):
        index, field, j = index
        sub = (field, j)
    for i, n in enumerate(ast.walk(tree)):
        if i != index:
            continue
        if kind == 'else-wrap':
            blk = getattr(n, sub[0])
            st = blk[sub[1]]
            st.orelse = blk[sub[1] + 1:]
            del blk[sub[1] + 1:]
            return ast.fix_missing_locations(tree)
        if kind == 'else-unwrap':
            blk = getattr(n, sub[0])
            st = blk[sub[1]]
            rest, st.orelse = st.orelse, []
            blk[sub[1] + 1:sub[1] + 1] = rest
            return ast.fix_missing_locations(tree)
        if kind == 'ret-temp':
            tmp = ast.Assign(targets=[ast.Name(id='_rv', ctx=ast.Store())],
                             value=n.value)
            new = ast.Return(value=ast.Name(id='_rv', ctx=ast.Load()))
            if not _replace_stmt(tree, n, [tmp, new]):
                return None
            return ast.fix_missing_locations(tree)
        if kind == 'yoda':
            n.left, n.comparators = n.comparators[0], [n.left]
            return ast.fix_missing_locations(tree)
        if kind == 'neg-if':
            n.test = ast.UnaryOp(op=ast.Not(), operand=n.test)
            n.body, n.orelse = n.orelse, n.body
        elif kind == 'swap-and':
            n.values = [n.values[1], n.values[0]]
        elif kind == 'noop':
            stmt = ast.Assert(test=ast.Constant(value=True), msg=None)
            body = n.body
            pos = 1 if (body and isinstance(body[0], ast.Expr) and
                        isinstance(body[0].value, ast.Constant) and
                        isinstance(body[0].value.value, str)) else 0
            body.insert(pos, stmt)
        return ast.fix_missing_locations(tree)
    return None


class Six(ast.NodeTransformer):
    MAP = {'iteritems': 'items', 'itervalues': 'values', 'iterkeys': 'keys'}

    def __init__(self):
        self.n = 0

    def visit_Call(self, node):
        self.generic_visit(node)
        f = node.func
        if isinstance(f, ast.Attribute) and isinstance(f.value, ast.Name) and \
                f.value.id == 'six' and f.attr in self.MAP and \
                len(node.args) == 1 and not node.keywords:
            self.n += 1
            return ast.Call(func=ast.Attribute(value=node.args[0],
                                               attr=self.MAP[f.attr],
                                               ctx=ast.Load()),
                            args=[], keywords=[])
        return node


class Super(ast.NodeTransformer):
    def __init__(self):
        self.n = 0

    def visit_Call(self, node):
        self.generic_visit(node)
        if isinstance(node.func, ast.Name) and node.func.id == 'super' and \
                len(node.args) == 2:
            self.n += 1
            node.args = []
        return node


def enumerate_targets(kinds, only=None):
    out = []
    for dirpath, _, files in os.walk(os.path.join(PRISTINE,
                                                  'django_evolution')):
        for fn in sorted(files):
            if not fn.endswith('.py'):
                continue
            path = os.path.join(dirpath, fn)
            rel = os.path.relpath(path, PRISTINE)
            if rel.startswith('django_evolution/compat/six'):
                continue
            if only and only not in rel:
                continue
            tree = ast.parse(open(path).read())
            for kind, idx in sites(tree, kinds):
                out.append((rel, kind, idx))
            for k in ('six', 'super'):
                if k in kinds:
                    out.append((rel, k, -1))
    return out


def run_one(args):
    rel, kind, idx, props, base = args
    tmp = tempfile.mkdtemp(prefix='sa_rff_')
    try:
        root = os.path.join(tmp, 'r')
        shutil.copytree(PRISTINE, root)
        path = os.path.join(root, rel)
        tree = ast.parse(open(path).read())
        if kind == 'six':
            t = Six()
            tree = ast.fix_missing_locations(t.visit(tree))
            if not t.n:
                return None
        elif kind == 'super':
            t = Super()
            tree = ast.fix_missing_locations(t.visit(tree))
            if not t.n:
                return None
        else:
            tree = transform(tree, kind, idx)
            if tree is None:
                return None
        src = ast.unparse(tree)
        compile(src, path, 'exec')
        open(path, 'w').write(src)
        got = verdicts(root, props)
        diff = {p: got[p] for p in props if got[p] != base[p]}
        line = 0
        widx = idx[0] if isinstance(idx, (tuple, list)) else idx
        if widx >= 0:
            for i, n in enumerate(ast.walk(ast.parse(open(os.path.join(
                    PRISTINE, rel)).read()))):
                if i == widx:
                    line = getattr(n, 'lineno', 0)
                    if isinstance(idx, (tuple, list)):
                        line = getattr(n, idx[1])[idx[2]].lineno
        return {'target': '%s:%d %s' % (rel, line, kind), 'diff': diff}
    finally:
        shutil.rmtree(tmp, ignore_errors=True)


def main():
    a = sys.argv[1:]
    jobs = int(a[a.index('--jobs') + 1]) if '--jobs' in a else 12
    kinds = a[a.index('--kinds') + 1].split(',') if '--kinds' in a else \
        ['neg-if', 'swap-and', 'noop', 'six', 'super']
    only = a[a.index('--only') + 1] if '--only' in a else None
    props = a[a.index('--props') + 1].split(',') if '--props' in a else PROPS
    t0 = time.time()
    base = unparse_baseline(props)
    targets = enumerate_targets(kinds, only)
    print('%d refactoring variants (%s), %d jobs' % (len(targets),
                                                     ','.join(kinds), jobs))
    work = [(rel, k, i, props, base) for rel, k, i in targets]
    results = []
    with ProcessPoolExecutor(max_workers=jobs) as ex:
        for r in ex.map(run_one, work, chunksize=4):
            if r is not None:
                results.append(r)
    brittle = [r for r in results if r['diff']]
    json.dump({'variants': len(results), 'brittle': len(brittle),
               'secs': round(time.time() - t0), 'cases': brittle},
              open(os.path.join(VERIF, 'selftest',
                                'refactor_fuzz_report.json'), 'w'), indent=1)
    print('%d variants, %d change a verdict (%.0fs)' % (
        len(results), len(brittle), time.time() - t0))
    for r in brittle[:300]:
        print(' ', r['target'], {p: [str(x)[:110] for x in v[:1]]
                                 for p, v in r['diff'].items()})


if __name__ == '__main__':
    main()
