import json, os
P='django_evolution/'
V=[]
def v(id, rule, file, old, new, expect='fire', note='', **kw):
    d=dict(id=id, property='C14', rule=rule, file=P+file, old=old, new=new, expect=expect, note=note); d.update(kw); V.append(d)
C='db/common.py'
v('c14-unsorted-to-remove','R-C14.1',C,"for field_names in sorted(to_remove):","for field_names in to_remove:",edits=[{'file':P+C,'old':"for field_names in sorted(to_remove):",'new':"for field_names in to_remove:",'count':2}])
v('c14-unsorted-unique-add','R-C14.1',C,"for field_names in sorted(new_unique_together):","for field_names in new_unique_together:")
v('c14-unsorted-index-together','R-C14.1',C,"for field_names in sorted(new_index_together):","for field_names in new_index_together:")
v('c14-unsorted-rename-app','R-C14.1','mutations/rename_app_label.py',"for model_name in sorted(model_names)","for model_name in model_names")
v('c14-unsorted-regroup','R-C14.1','mutators/app_mutator.py',"for model_name in sorted(model_names)","for model_name in model_names")
v('c14-graph-unsorted-deps','R-C14.1','utils/graph.py',"""                        for dep in sorted(node.dependencies,
                                          key=lambda dep: dep.insert_index,
                                          reverse=True):""","""                        for dep in list(node.dependencies):""")
v('c14-diff-unsorted','R-C14.1','signature.py',"        return sorted(changed_attrs)","        return changed_attrs")
v('c14-new-set-loop','R-C14.1','mutations/delete_field.py',"""        for unique_together_entry in model_sig.unique_together:""","""        for unique_together_entry in set(model_sig.unique_together):""",note='signature list rebuilt in set order')
v('c14-capture-other-var','R-C14.2','utils/sql.py',"""                        else:
                            out_sql.append(statement)""","""                        else:
                            out_sql.append(batch[0][0])""")
v('c14-exec-normalised-later','R-C14.2','utils/sql.py',"""                    if execute:
                        cursor.execute(statement, params)""","""                    if execute:
                        statement = statement.rstrip(';')
                        cursor.execute(statement, params)""",note='executed text differs from captured text')
v('c14-skip-prepare','R-C14.2','utils/sql.py',"""            batches = self._prepare_transaction_batches(
                self._prepare_sql(sql))""","""            batches = self._prepare_transaction_batches(
                self._prepare_sql(sql) if execute else
                ((s, None, True, False) for s in sql))""",expect='silent',note='still derived from _prepare_sql on one arm: rule is may-based here; kept as documentation of the limit')
v('c14-batch-sql-from-task','R-C14.3','evolve/evolve_app_task.py',"""                                'sql': mutations_info['sql'],""","""                                'sql': batch_task.sql,""",note='executed SQL no longer regenerated for the batch')
v('c14-preview-executes','R-C14.3','management/commands/evolve.py',"executor.run_sql(task.sql, capture=True)","executor.run_sql(task.sql, capture=True, execute=True)")
# silent
v('c14-s-sorted-key','R-C14.1',C,"for field_names in sorted(new_unique_together):","for field_names in sorted(new_unique_together, key=lambda names: tuple(names)):",expect='silent')
v('c14-s-rename-loopvars','R-C14.2','utils/sql.py',"for statement, params in batch:","for statement, params in list(batch):",expect='silent')
json.dump(V, open(os.path.dirname(os.path.abspath(__file__))+'/variants_c14.json','w'), indent=1)
print(len(V))
