import json, os
P='django_evolution/'
V=[]
def v(id, rule, file, old, new, expect='fire', note='', **kw):
    d=dict(id=id, property='C01', rule=rule, file=P+file, old=old, new=new, expect=expect, note=note); d.update(kw); V.append(d)
C='db/common.py'; S='db/sqlite3.py'; M='mutators/model_mutator.py'
v('c01-op-renamed-producer','R-C01.1',M,"            'type': 'change_column_type',","            'type': 'change_type',",note='producer renamed, consumer not')
v('c01-op-key-dropped','R-C01.1',M,"""            'type': 'add_column',
            'mutation': mutation,
            'field': field,
            'initial': initial,""","""            'type': 'add_column',
            'mutation': mutation,
            'field': field,""",note="consumer reads op['initial']")
v('c01-dispatch-no-raise','R-C01.1',C,"""        else:
            raise EvolutionNotImplementedError(
                'Unknown mutation operation "%s"' % op_type)
""","""        else:
            pass
""")
v('c01-meta-prop-unhandled','R-C01.2',C,"    def change_meta_index_together(self, model, old_index_together,","    def change_meta_index_together_(self, model, old_index_together,",note='getattr dispatch would raise AttributeError')
v('c01-new-supported-attr','R-C01.2',C,"        'db_column',\n        'db_index',","        'db_column',\n        'db_comment',\n        'db_index',",note='attr admitted without a change_column_attr_db_comment handler')
v('c01-mutator-meta-missing','R-C01.2',M,"        elif prop_name == 'db_table_comment':\n            # Django >= 4.2\n            old_value = self.model_sig.db_table_comment\n","",note='ModelMutator.change_meta raises for a property the diff can hint')
v('c01-sqlite-unknown-tag','R-C01.3',S,"""                'op': 'CHANGE COLUMN TYPE',""","""                'op': 'CHANGE TYPE',""")
v('c01-sqlite-tag-missing-key','R-C01.3',S,"""                    'op': 'MODIFY COLUMN',
                    'field': field,
                    'initial': None,
                },""","""                    'op': 'MODIFY COLUMN',
                    'field': field,
                },""")
v('c01-sqlite-base-handler-reached','R-C01.3',S,"""    def change_column_attr_max_length(self, model, mutation, field, old_value,
                                      new_value):""","""    def change_column_attr_max_length_(self, model, mutation, field,
                                       old_value, new_value):""",note='the base handler (ALTER COLUMN tag) becomes effective for SQLite')
v('c01-sqlite-no-raise','R-C01.3',S,"""            else:
                raise ValueError('%s is not a valid Alter Table op for SQLite'
                                 % op)
""","""            else:
                continue
""")
v('c01-create-index-no-state','R-C01.4',C,"""        self.database_state.add_index(
            table_name=table_name,
            index_name=create_index_name(self.connection,
                                         table_name,
                                         field_names=[field.name],
                                         col_names=[column]),
            columns=[column])

        return SQLResult(sql_indexes_for_field(""","""        return SQLResult(sql_indexes_for_field(""")
v('c01-drop-index-no-state','R-C01.4',C,"""        self.database_state.remove_index(table_name=model._meta.db_table,
                                         index_name=index_name)

        return self.get_drop_index_sql(model, index_name)""","""        return self.get_drop_index_sql(model, index_name)""")
v('c01-meta-indexes-remove-no-state','R-C01.4',C,"""                    db_state.remove_index(table_name=table_name,
                                          index_name=index_name)
""","""                    pass
""")
v('c01-rebuild-no-field-indexes','R-C01.5',S,"        sql += sql_indexes_for_model(connection, _Model)\n","")
v('c01-mockmeta-unique-together','R-C01.5','mock_models.py',"            'unique_together': model_sig.unique_together,","            'unique_together': [],")
# silent
v('c01-s-op-extra-key','R-C01.1',M,"""            'type': 'delete_column',
            'mutation': mutation,
            'field': field,""","""            'type': 'delete_column',
            'mutation': mutation,
            'field': field,
            'column': field.column,""",expect='silent')
v('c01-s-dispatch-via-dict-order','R-C01.1',C,"        if op_type == 'add_column':\n            field = op['field']","        if 'add_column' == op_type:\n            field = op['field']",expect='silent')
v('c01-add-db-index-not-in-new-fields','R-C01.8','db/sqlite3.py',"""                added_field_db_indexes.append(field)

                # If the table is rebuilt, the field indexes are recreated
                # from the fields used for the new table. Make sure that's
                # the field with the new db_index state, which may have
                # been built from a different model instance than ours
                # when operations are merged.
                replaced_fields.setdefault(field.column, field)
""","""                added_field_db_indexes.append(field)
""",note='the defect fixed in 42eb15c')
v('c01-drop-db-index-not-in-new-fields','R-C01.8','db/sqlite3.py',"""                dropped_field_db_indexes.append(field)
                replaced_fields.setdefault(field.column, field)
""","""                dropped_field_db_indexes.append(field)
""")
v('c01-s-index-state-subscript','R-C01.8','db/sqlite3.py',"""                dropped_field_db_indexes.append(field)
                replaced_fields.setdefault(field.column, field)
""","""                dropped_field_db_indexes.append(field)
                if field.column not in replaced_fields:
                    replaced_fields[field.column] = field
""",expect='silent')
v('c01-deleted-filter-over-added','R-C01.9','db/sqlite3.py',"""            for _field in old_fields
            if _field.column not in deleted_columns
        ] + [
            replaced_fields.get(_field.column, _field)
            for _field in added_fields
        ]
""","""            for _field in old_fields + added_fields
            if _field.column not in deleted_columns
        ]
""",note='the defect fixed in 50fdda8')
v('c01-s-deleted-filter-loop','R-C01.9','db/sqlite3.py',"""            for _field in old_fields
            if _field.column not in deleted_columns
        ] + [""","""            for _field in list(old_fields)
            if not (_field.column in deleted_columns)
        ] + [""",expect='silent')
json.dump(V, open(os.path.dirname(os.path.abspath(__file__))+'/variants_c01.json','w'), indent=1)
print(len(V))
