import json, os
P='django_evolution/'
V=[]
def v(id, rule, file, old, new, expect='fire', note='', **kw):
    d=dict(id=id, property='C16', rule=rule, file=P+file, old=old, new=new, expect=expect, note=note); d.update(kw); V.append(d)
v('c16-delete-app-mutable-true','R-C16.3','mutations/delete_application.py',"""                if mutation.is_mutable(app_label=mutator.app_label,
                                       project_sig=mutator.project_sig,
                                       database_state=mutator.database_state,
                                       database=mutator.database):
                    mutator.run_mutation(mutation)""","""                mutator.run_mutation(mutation)""",note='purge drops tables of models routed elsewhere')
v('c16-from-app-unrouted','R-C16.2','signature.py',"""            if db_router_allows_schema_upgrade(database, app_label, model):
                app_sig.add_model(model)""","""            app_sig.add_model(model)""")
v('c16-from-app-default-db','R-C16.2','signature.py',"            if db_router_allows_schema_upgrade(database, app_label, model):","            if db_router_allows_schema_upgrade(DEFAULT_DB_ALIAS, app_label, model):")
v('c16-installable-unrouted','R-C16.2','compat/db.py',"""        if (not db_state.has_model(model) and
            db_router_allows_schema_upgrade(db_state.db_name, app_label,
                                            model))""","""        if not db_state.has_model(model)""")
v('c16-unfiltered-mutations','R-C16.3','evolve/evolve_app_task.py',"""            for mutation in pending_mutations
            if self.is_mutation_mutable(mutation,
                                        app_label=self.app_label)
        ]""","""            for mutation in pending_mutations
        ]""")
v('c16-mutable-no-database','R-C16.3','evolve/base.py',"                                   database=evolver.database_name,\n","                                   database=None,\n")
v('c16-orm-default-db','R-C16.4','utils/evolutions.py',"""    applied = set(
        Evolution.objects
        .using(database)
        .filter(app_label=get_app_label(app))""","""    applied = set(
        Evolution.objects
        .filter(app_label=get_app_label(app))""",note='applied evolutions read from the default database')
v('c16-save-default-db','R-C16.4','evolve/evolver.py',"            version.save(using=self.database_name)","            version.save()")
v('c16-thread-dropped','R-C16.4','evolve/evolve_app_task.py',"""                    evolutions = get_unapplied_evolutions(
                        app=app,
                        database=database_name)""","""                    evolutions = get_unapplied_evolutions(app=app)""")
v('c16-sql-create-default-db','R-C16.4','evolve/evolve_app_task.py',"""                    sql_create_models(new_models,
                                      db_name=database_name,
                                      return_deferred=True)""","""                    sql_create_models(new_models,
                                      return_deferred=True)""",edits=[{'file':P+'evolve/evolve_app_task.py','old':"""                    sql_create_models(new_models,
                                      db_name=database_name,
                                      return_deferred=True)""",'new':"""                    sql_create_models(new_models,
                                      return_deferred=True)""",'count':1}])
# silent
v('c16-s-is-mutable-fixed','R-C16.1','mutations/base.py',"""        db_name = (database or
                   get_database_for_model_name(app_label, self.model_name))
        return db_name and db_name == database""","""        db_name = get_database_for_model_name(app_label, self.model_name)
        return db_name and (not database or db_name == database)""",expect='silent',note='a repaired is_mutable: the known finding disappears (STALE), nothing new fires')
json.dump(V, open(os.path.dirname(os.path.abspath(__file__))+'/variants_c16.json','w'), indent=1)
print(len(V))
