import json, os
P='django_evolution/'
V=[]
def v(id, rule, file, old, new, expect='fire', note='', **kw):
    d=dict(id=id, property='C13', rule=rule, file=P+file, old=old, new=new, expect=expect, note=note); d.update(kw); V.append(d)
S='serialization.py'; T='evolve/evolve_app_task.py'
v('c13-import-only-addfield','R-C13.1',T,"""            if 'models.' in mutation_line:
                # The hint references something in django.db.models (a
                # field type, Q, F, Index, constraint, ...), regardless of
                # the type of mutation.
                imports.add('from django.db import models')
""","",note='the original defect')
v('c13-import-only-changefield','R-C13.1',T,"            if 'models.' in mutation_line:","            if isinstance(mutation, ChangeField) and 'models.' in mutation_line:",edits=[{'file':P+T,'old':"            if 'models.' in mutation_line:",'new':"            if isinstance(mutation, ChangeField) and 'models.' in mutation_line:"},{'file':P+T,'old':"from django_evolution.mutations import AddField\n",'new':"from django_evolution.mutations import AddField, ChangeField\n"}])
v('c13-no-xor','R-C13.2',S,"""
        # Django >= 4.1
        'XOR': ' ^ ',
""","")
v('c13-single-child-shortcut','R-C13.2',S,"""        if num_children == 0:
            result.append('models.Q()')
        else:""","""        if num_children == 0:
            result.append('models.Q()')
        elif num_children == 1:
            child = value.children[0]
            result.append('models.Q(%s=%s)'
                          % (child[0], serialize_to_python(child[1])))
        else:""",note='the original defect: nested single child subscripted')
v('c13-q-unknown-child-dropped','R-C13.2',S,"""                else:
                    raise TypeError('Unexpected type %s (value %r) in Q()'
                                    % (type(child), child))
""","")
v('c13-combined-no-parens','R-C13.3',S,"""            if isinstance(operand, CombinedExpression):
                # Preserve the grouping of nested expressions, which Python's
                # operator precedence could otherwise change.
                operand_str = '(%s)' % operand_str

""","",note='the original defect')
v('c13-q-no-parens','R-C13.3',S,"""                result.append(
                    '(%s)'
                    % cls.child_separators[value.connector].join(children))""","""                result.append(
                    cls.child_separators[value.connector].join(children))""")
v('c13-serializer-no-python','R-C13.4',S,"""class SetSerialization(BaseIterableSerialization):""","""class SetSerialization(BaseIterableSerialization):
    pass


class _OldSetSerialization(BaseIterableSerialization):""",note='set values can no longer be rendered')
v('c13-unknown-repr','R-C13.4',S,"""        raise TypeError(
            'Unsupported type %s passed to serialize_to_python(). '
            'Value: %r'
            % (type(value), value))""","""        return repr(value)""",note='unknown values rendered with repr(): not loadable Python')
v('c13-hint-omits-db-column','R-C13.5','mutations/rename_field.py',"""        if self.db_column:
            params.append(self.serialize_attr('db_column', self.db_column))

""","")
v('c13-hint-omits-initial','R-C13.5','mutations/add_field.py',"""        if self.initial is not None:
            params.append(self.serialize_attr('initial', self.initial))

""","")
v('c13-placeholder-runs','R-C13.5','placeholders.py',"""        raise EvolutionException(
            _('Cannot use hinted evolution: AddField or ChangeField mutation '
              'for "%s.%s" in "%s" requires user-specified initial value.')
            % (self.model_name, self.field_name, self.app_label))""","""        return None""")
# silent
v('c13-s-q-getattr-key','R-C13.2',S,"        'XOR': ' ^ ',","        getattr(Q, 'XOR', 'XOR'): ' ^ ',",expect='silent')
v('c13-s-import-always','R-C13.1',T,"            if 'models.' in mutation_line:","            if True:",expect='silent')
json.dump(V, open(os.path.dirname(os.path.abspath(__file__))+'/variants_c13.json','w'), indent=1)
print(len(V))
