import json, os
P='django_evolution/'
V=[]
def v(id, rule, file, old, new, expect='fire', note='', **kw):
    d=dict(id=id, property='C08', rule=rule, file=P+file, old=old, new=new, expect=expect, note=note); d.update(kw); V.append(d)
T='evolve/evolve_app_task.py'; E='evolve/evolver.py'; U='utils/evolutions.py'
v('c08-task-records-itself','R-C08.1',T,"""            applied_evolution.send(sender=evolver,
                                   task=self,
                                   evolutions=evolutions)
""","""            applied_evolution.send(sender=evolver,
                                   task=self,
                                   evolutions=evolutions)
            Evolution.objects.using(evolver.database_name).bulk_create(
                evolutions)
""",note='recorded by the task and again by the evolver')
v('c08-accumulate-before-exec','R-C08.2',E,"""                task_cls.execute_tasks(evolver=self,
                                       tasks=tasks)

                for task in tasks:
                    new_evolutions += task.new_evolutions
""","""                for task in tasks:
                    new_evolutions += task.new_evolutions

                task_cls.execute_tasks(evolver=self,
                                       tasks=tasks)
""")
v('c08-accumulate-twice','R-C08.2',E,"""                for task in tasks:
                    new_evolutions += task.new_evolutions
""","""                for task in tasks:
                    new_evolutions += task.new_evolutions

                for task in self.tasks:
                    new_evolutions += task.new_evolutions
""",note='labels recorded more than once')
v('c08-save-subset','R-C08.2',E,"            self._save_project_sig(new_evolutions=new_evolutions)\n            self.evolved","            self._save_project_sig(new_evolutions=new_evolutions[:1])\n            self.evolved")
v('c08-bulk-create-before-version','R-C08.2',E,"""            version.save(using=self.database_name)

            if new_evolutions:""","""            if new_evolutions:""",edits=[{'file':P+E,'old':"""            version.save(using=self.database_name)

            if new_evolutions:""",'new':"""            if new_evolutions:"""},{'file':P+E,'old':"""                    new_evolutions)
        except Exception as e:""",'new':"""                    new_evolutions)

            version.save(using=self.database_name)
        except Exception as e:"""}])
v('c08-record-all-execute-unapplied','R-C08.3',T,"""                    pending_mutations = get_app_pending_mutations(
                        app=app,
                        evolution_labels=evolutions,
                        database=database_name)""","""                    pending_mutations = get_app_pending_mutations(
                        app=app,
                        evolution_labels=get_evolution_sequence(app),
                        database=database_name)""",note='already-applied evolutions executed again')
v('c08-fresh-app-executes','R-C08.3',T,"""                    if label not in applied_evolutions
                ]
        else:""","""                    if label not in applied_evolutions
                ]
            self.sql = (self.generate_mutations_info(
                get_app_pending_mutations(app=app,
                                          evolution_labels=evolutions,
                                          database=database_name),
                update_evolver=False) or {}).get('sql', [])
        else:""")
v('c08-fresh-app-sql-in-batches','R-C08.3',T,"""                    if batch_task.app_sig_is_new:""","""                    if False:""",note='the defect fixed in 4591430')
v('c08-record-hint-label','R-C08.3',T,"""                    evolutions = []
                    hinted_evolution = evolver.initial_diff.evolution()""","""                    evolutions = get_evolution_sequence(app)
                    hinted_evolution = evolver.initial_diff.evolution()""",note='hinted run records file evolutions it never executed')
v('c08-query-all-apps','R-C08.4',U,"""    return list(
        Evolution.objects
        .using(database)
        .filter(app_label=get_app_label(app))
        .values_list('label', flat=True)
    )""","""    return list(
        Evolution.objects
        .using(database)
        .values_list('label', flat=True)
    )""",note='two apps sharing a label')
v('c08-batch-uses-all-labels','R-C08.5',T,"""                            evolution_labels=batch_task_info['evolutions'],""","""                            evolution_labels=[
                                _e.label for _e in batch_task.new_evolutions
                            ],""",note='a task split over two batches runs everything twice')
# silent
v('c08-s-extend','R-C08.2',E,"                    new_evolutions += task.new_evolutions\n","                    new_evolutions.extend(task.new_evolutions)\n",expect='silent')
json.dump(V, open(os.path.dirname(os.path.abspath(__file__))+'/variants_c08.json','w'), indent=1)
print(len(V))
