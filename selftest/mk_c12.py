import json, os
P='django_evolution/'
V=[]
def v(id, rule, file, old, new, expect='fire', note='', **kw):
    d=dict(id=id, property='C12', rule=rule, file=P+file, old=old, new=new, expect=expect, note=note); d.update(kw); V.append(d)
CMD='management/commands/evolve.py'
v('c12-gate-conditional','R-C12.1',CMD,"simulated = self._check_simulation()","simulated = hint and self._check_simulation()",note='gate skipped unless --hint')
v('c12-gate-after-exec','R-C12.1',CMD,"            simulated = self._check_simulation()\n","            simulated = True\n",edits=[{'file':P+CMD,'old':"            simulated = self._check_simulation()\n",'new':"            simulated = True\n"},{'file':P+CMD,'old':"                    self._perform_evolution()\n",'new':"                    self._perform_evolution()\n                    simulated = self._check_simulation()\n"}])
v('c12-gate-returns-false','R-C12.2',CMD,"""        raise CommandError(_(
            'Your models contain changes that Django Evolution cannot '
            'resolve automatically.'))""","""        return False""",note='residual diff only warns')
v('c12-gate-hinted-bypass','R-C12.2',CMD,"if diff.is_empty(ignore_apps=not self.purge):","if diff.is_empty(ignore_apps=not self.purge) or self.evolver.hinted:")
v('c12-gate-wrong-diff','R-C12.2',CMD,"diff = self.evolver.diff_evolutions()","diff = self.evolver.initial_diff")
v('c12-prepare-executes','R-C12.3','evolve/evolve_app_task.py',"""                self._new_models_sql, self._new_models_deferred_sql = \\
                    sql_create_models(new_models,
                                      db_name=database_name,
                                      return_deferred=True)
""","""                self._new_models_sql, self._new_models_deferred_sql = \\
                    sql_create_models(new_models,
                                      db_name=database_name,
                                      return_deferred=True)

                with evolver.sql_executor() as sql_executor:
                    sql_executor.run_sql(self._new_models_sql, execute=True)
""",note='models created during task preparation, before the gate')
v('c12-add-tasks-records','R-C12.3','evolve/evolver.py',"""        self._tasks_by_id[task.id] = task
""","""        self._tasks_by_id[task.id] = task
        self._save_project_sig(new_evolutions=[])
""")
v('c12-fail-returns','R-C12.4','mutations/base.py',"        raise SimulationFailure(msg % error_dict)","        return SimulationFailure(msg % error_dict)")
v('c12-lookup-no-fail','R-C12.4','mutations/base.py',"""        self.fail('The field could not be found in the signature.',
                  model_name=model_name,
                  field_name=field_name)""","""        return None""")
v('c12-no-dup-guard','R-C12.5','mutations/add_field.py',"""        if model_sig.get_field_sig(self.field_name) is not None:
            simulation.fail('A field with this name already exists.')
""","")
v('c12-no-pk-guard','R-C12.5','mutations/delete_field.py',"""        if field_sig.get_attr_value('primary_key'):
            simulation.fail('The field is a primary key and cannot '
                            'be deleted.')
""","")
v('c12-initial-guard-warns','R-C12.5','mutations/add_field.py',"""            simulation.fail('A non-null initial value must be specified in '
                            'the mutation.')""","""            pass""")
v('c12-raw-lookup','R-C12.5','mutations/change_meta.py',"model_sig = simulation.get_model_sig(self.model_name)","model_sig = simulation.project_sig.get_app_sig(simulation.app_label).get_model_sig(self.model_name)",note='unvalidated lookup: missing model is not rejected as an evolution error')
v('c12-simfailure-not-evolution-exc','R-C12.6','errors.py',"class SimulationFailure(EvolutionException):","class SimulationFailure(Exception):")
v('c12-handler-swallows','R-C12.6',CMD,"""        except EvolutionException as e:
            raise CommandError(six.text_type(e))

    def _add_tasks""","""        except EvolutionException as e:
            self.stderr.write(six.text_type(e))

    def _add_tasks""")
v('c12-simulation-failure-logged','R-C12.7','mutators/base.py',"""        except CannotSimulate:
            self.can_simulate = False""","""        except (CannotSimulate, SimulationFailure):
            self.can_simulate = False""",edits=[{'file':P+'mutators/base.py','old':"""        except CannotSimulate:
            self.can_simulate = False""",'new':"""        except (CannotSimulate, SimulationFailure):
            self.can_simulate = False"""},{'file':P+'mutators/base.py','old':"from django_evolution.errors import CannotSimulate",'new':"from django_evolution.errors import CannotSimulate, SimulationFailure"}],note='an invalid evolution degrades to "cannot simulate", which the gate lets through')
# silent
v('c12-s-local-can-simulate','R-C12.2',CMD,"        if not self.evolver.can_simulate():","        can_simulate = self.evolver.can_simulate()\n\n        if not can_simulate:",expect='silent')
v('c12-s-else-raise','R-C12.2',CMD,"""        if diff.is_empty(ignore_apps=not self.purge):
            return True
""","""        resolved = diff.is_empty(ignore_apps=not self.purge)

        if resolved:
            return True
""",expect='silent')
v('c12-s-guard-reordered','R-C12.5','mutations/add_field.py',"""        if (not issubclass(self.field_type, models.ManyToManyField) and
            not self.field_attrs.get('null')
            and self.initial is None):""","""        if (self.initial is None and
            not self.field_attrs.get('null') and
            not issubclass(self.field_type, models.ManyToManyField)):""",expect='silent')
json.dump(V, open(os.path.dirname(os.path.abspath(__file__))+'/variants_c12.json','w'), indent=1)
print(len(V))
