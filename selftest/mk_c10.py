import json, os
P='django_evolution/'
V=[]
def v(id, rule, file, old, new, expect='fire', note='', **kw):
    d=dict(id=id, property='C10', rule=rule, file=P+file, old=old, new=new, expect=expect, note=note); d.update(kw); V.append(d)
T='evolve/evolve_app_task.py'; M='mutations/move_to_django_migrations.py'; G='signature.py'
v('c10-no-applied-migrations','R-C10.1',M,"        app_sig.applied_migrations = self.mark_applied\n","")
v('c10-no-upgrade-method','R-C10.1',M,"        app_sig.upgrade_method = UpgradeMethod.MIGRATIONS\n","")
v('c10-finalize-no-sim','R-C10.1','mutators/upgrade_method_mutator.py',"        self.run_simulation(self._mutation)","        pass")
v('c10-evolve-migrated-app','R-C10.2',T,"            if app_sig.upgrade_method != UpgradeMethod.MIGRATIONS:","            if app_sig.upgrade_method != UpgradeMethod.MIGRATIONS or hinted:",note='hinting an app that already moved to migrations')
v('c10-diff-keeps-models','R-C10.2',G,"""            changed_models.clear()
            deleted_models = []
""","""            pass
""")
v('c10-record-after-batches','R-C10.3',T,"""            if applied_migrations:
                record_applied_migrations(connection=evolver.connection,
                                          migrations=applied_migrations)
""","",edits=[{'file':P+T,'old':"""            if applied_migrations:
                record_applied_migrations(connection=evolver.connection,
                                          migrations=applied_migrations)
""",'new':"""            pass
"""},{'file':P+T,'old':"""            # Write the new lists of applied migrations out to the signature.
""",'new':"""            record_applied_migrations(
                connection=evolver.connection,
                migrations=state['migration_executor'].loader
                .extra_applied_migrations)

            # Write the new lists of applied migrations out to the signature.
"""}],note='covered migrations recorded only after the others ran')
v('c10-record-unconditional','R-C10.3',T,"""        if migrating:
            # If we have any applied migration names we wanted to record, do it
            # before we begin any migrations.
            applied_migrations = \\
                state['migration_executor'].loader.extra_applied_migrations

            if applied_migrations:""","""        if True:
            # If we have any applied migration names we wanted to record, do it
            # before we begin any migrations.
            applied_migrations = \\
                state['migration_executor'].loader.extra_applied_migrations

            if applied_migrations:""",expect='silent',note='recording the marked migrations even when nothing is left to migrate is correct; an earlier version of R-C10.3 demanded the guard, which was a false alarm on a correct repair')
v('c10-plan-no-exclude','R-C10.3',T,"""            post_migration_targets = filter_migration_targets(
                targets=migration_loader.graph.leaf_nodes(),
                app_labels=migration_app_labels,
                exclude=excluded_targets)""","""            post_migration_targets = filter_migration_targets(
                targets=migration_loader.graph.leaf_nodes(),
                app_labels=migration_app_labels,
                exclude=applied_migrations.to_targets())""",note='marked-applied migrations get executed')
v('c10-mark-everything','R-C10.3',T,"""                    new_applied_migrations = (task.applied_migrations -
                                              applied_migrations)""","""                    new_applied_migrations = task.applied_migrations""",note='already recorded migrations recorded again')
v('c10-no-write-back','R-C10.4',T,"                    app_sig.applied_migrations = applied_migrations\n","                    pass\n")
v('c10-write-back-from-task','R-C10.4',T,"""            applied_migrations = \\
                MigrationList.from_database(evolver.connection)
            project_sig = evolver.project_sig""","""            applied_migrations = \\
                state['migration_executor'].loader.extra_applied_migrations
            project_sig = evolver.project_sig""",note='signature lists only the marked migrations, not what the table records')
v('c10-setter-no-filter','R-C10.4',G,"""                if info['app_label'] == self.app_id
""","""                if info['app_label']
""")
# silent
v('c10-s-guard-negated','R-C10.2',T,"            if app_sig.upgrade_method != UpgradeMethod.MIGRATIONS:","            if not (app_sig.upgrade_method == UpgradeMethod.MIGRATIONS):",expect='silent')
json.dump(V, open(os.path.dirname(os.path.abspath(__file__))+'/variants_c10.json','w'), indent=1)
print(len(V))
