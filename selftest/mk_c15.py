import json, os
P='django_evolution/'
V=[]
def v(id, rule, file, old, new, expect='fire', note='', **kw):
    d=dict(id=id, property='C15', rule=rule, file=P+file, old=old, new=new, expect=expect, note=note); d.update(kw); V.append(d)
DM='mutations/delete_model.py'; DA='mutations/delete_application.py'; CMD='management/commands/evolve.py'
v('c15-new-dropper','R-C15.1','mutations/rename_model.py',"""        mutator.add_sql(
            self,
            mutator.evolver.rename_table(""","""        mutator.add_sql(self, mutator.evolver.delete_table(
            old_model_sig.table_name))
        mutator.add_sql(
            self,
            mutator.evolver.rename_table(""",note='a rename that drops the old table')
v('c15-drop-literal','R-C15.1','evolve/purge_app_task.py',"            self.sql = app_mutator.to_sql()","            self.sql = app_mutator.to_sql() + [\n                'DROP TABLE IF EXISTS %s_log;' % self.app_label]")
v('c15-drop-related-table','R-C15.2',DM,"        sql_result.add(mutator.evolver.delete_table(model._meta.db_table))","        sql_result.add(mutator.evolver.delete_table(\n            '%s_%s' % (mutator.app_label, self.model_name.lower())))",note='table name recomputed instead of read from the model: wrong for custom db_table')
v('c15-drop-all-rel-tables','R-C15.2',DM,"            if issubclass(field_sig.field_type, models.ManyToManyField):","            if field_sig.related_model:",note='drops through tables for every relation, not only m2m')
v('c15-delete-app-all-apps','R-C15.2',DA,"        app_sig = simulation.get_app_sig()\n","        app_sig = next(iter(simulation.project_sig.app_sigs))\n")
v('c15-purge-always','R-C15.3',CMD,"        if self.purge:\n            # The caller wants to purge","        if True:\n            # The caller wants to purge")
v('c15-purge-default-true','R-C15.3',CMD,"""            '--purge',
            action='store_true',
            dest='purge',
            default=False,""","""            '--purge',
            action='store_true',
            dest='purge',
            default=True,""")
v('c15-purge-all-changed','R-C15.3','evolve/evolver.py',"        for app_label in self.initial_diff.deleted:","        for app_label in self.initial_diff.changed:")
v('c15-gate-ignores-always','R-C15.3',CMD,"diff.is_empty(ignore_apps=not self.purge)","diff.is_empty(ignore_apps=True)")
v('c15-remove-wrong-sig','R-C15.4',DM,"        app_sig = simulation.get_app_sig()\n","        app_sig = simulation.project_sig.get_app_sig(\n            simulation.legacy_app_label)\n")
v('c15-delete-app-removes-app','R-C15.4',DA,"""                simulation.get_model_sig(model_name)
                app_sig.remove_model_sig(model_name)""","""                simulation.get_model_sig(model_name)
                app_sig.remove_model_sig(model_name)

        simulation.project_sig.remove_app_sig(app_sig.app_id)""",note='drops the whole app entry even when models were skipped by the router')
# silent
v('c15-s-local-table-name','R-C15.2',DM,"        sql_result.add(mutator.evolver.delete_table(model._meta.db_table))","        table_name = model._meta.db_table\n        sql_result.add(mutator.evolver.delete_table(table_name))",expect='silent')
json.dump(V, open(os.path.dirname(os.path.abspath(__file__))+'/variants_c15.json','w'), indent=1)
print(len(V))
