import json, os
P='django_evolution/'
V=[]
def v(id, rule, file, old, new, expect='fire', note='', **kw):
    d=dict(id=id, property='C18', rule=rule, file=P+file, old=old, new=new, expect=expect, note=note); d.update(kw); V.append(d)
C='db/common.py'; S='db/sqlite3.py'
v('c18-missing-comma','R-C18.1',C,"        'change_meta',\n        'delete_column',","        'change_meta'\n        'delete_column',",note='the original defect')
v('c18-typo','R-C18.1',C,"        'delete_column',\n    )","        'delete_columns',\n    )")
v('c18-drop-member','R-C18.1',C,"        'add_column',\n        'change_column',","        'change_column',")
v('c18-new-result-on-merge','R-C18.2',C,"            sql_result = prev_sql_result\n","            sql_result = self.alter_table_sql_result_cls(self, model)\n            sql_result.add(prev_sql_result)\n",note='merges by copying: previous result is still emitted separately')
v('c18-mergeable-or','R-C18.2',C,"""        return (self._is_op_mergeable(op1) and
                self._is_op_mergeable(op2))""","""        return (self._is_op_mergeable(op1) or
                self._is_op_mergeable(op2))""",note='one mergeable op is enough: a non-mergeable op is merged into a rebuild')
v('c18-mergeable-one-sided','R-C18.2',C,"""        return (self._is_op_mergeable(op1) and
                self._is_op_mergeable(op2))""","""        return self._is_op_mergeable(op2)""")
v('c18-append-always','R-C18.2',C,"""            if sql_result is not prev_sql_result:
                sql_results.append(sql_result)
                prev_sql_result = sql_result""","""            sql_results.append(sql_result)
            prev_sql_result = sql_result""")
v('c18-flush-in-op-loop','R-C18.2',C,"""            prev_op = op

        sql = []

        for sql_result in sql_results:
            sql.extend(sql_result.to_sql())
""","""            prev_op = op
            sql.extend(sql_result.to_sql())
""",edits=[{'file':P+C,'old':"""            prev_op = op

        sql = []

        for sql_result in sql_results:
            sql.extend(sql_result.to_sql())
""",'new':"""            prev_op = op
            sql.extend(sql_result.to_sql())
"""},{'file':P+C,'old':"        sql_results = []\n        prev_sql_result = None\n",'new':"        sql_results = []\n        sql = []\n        prev_sql_result = None\n"}])
v('c18-rebuild-per-item','R-C18.3',S,"""                # This is used to get rid of auto-indexes from SQLite.
                needs_rebuild = True""","""                # This is used to get rid of auto-indexes from SQLite.
                needs_rebuild = True
                sql += evolver.delete_table(table_name).to_sql()""")
v('c18-sqlite-flushes-null','R-C18.4',S,"""        return self._change_attribute(model=model,
                                      field=field,
                                      attr_name='null',
                                      new_attr_value=new_value,
                                      initial=mutation.initial)""","""        return SQLResult(self._change_attribute(
            model=model,
            field=field,
            attr_name='null',
            new_attr_value=new_value,
            initial=mutation.initial).to_sql())""",note='handler flushes its own rebuild')
v('c18-unique-flush','R-C18.4',C,"""        return self.get_change_unique_sql(model, field, new_value,
                                          constraint_name, mutation.initial)""","""        sql_result = SQLResult()
        sql_result.add_sql(self.get_change_unique_sql(
            model, field, new_value, constraint_name, mutation.initial))
        return sql_result""")
v('c18-new-mutator-each-time','R-C18.5','mutators/app_mutator.py',"""            if (self._last_model_mutator and
                mutation.model_name == self._last_model_mutator.model_name):""","""            if (self._last_model_mutator and
                mutation is self._last_model_mutator):""")
# silent
v('c18-s-tuple-to-list','R-C18.1',C,"""    mergeable_ops = (
        'add_column',
        'change_column',
        'change_meta',
        'delete_column',
    )""","""    mergeable_ops = [
        'add_column',
        'change_column',
        'change_meta',
        'delete_column',
    ]""",expect='silent')
v('c18-s-extra-mergeable','R-C18.1',C,"        'delete_column',\n    )","        'delete_column',\n        'sql',\n    )",expect='silent',note='sql ops are produced by ModelMutator.add_sql; the rule does not forbid more merging')
json.dump(V, open(os.path.dirname(os.path.abspath(__file__))+'/variants_c18.json','w'), indent=1)
print(len(V))
