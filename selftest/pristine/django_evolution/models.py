"""Database models for tracking project schema history."""

from __future__ import unicode_literals

import json

from django.core.exceptions import ValidationError
from django.db import models
from django.db.models.signals import post_init
from django.utils.timezone import now

from django_evolution.compat import six
from django_evolution.compat.datastructures import OrderedDict
from django_evolution.compat.py23 import pickle_dumps, pickle_loads
from django_evolution.compat.six import python_2_unicode_compatible
from django_evolution.compat.translation import gettext_lazy as _
from django_evolution.signature import ProjectSignature


class VersionManager(models.Manager):
    """Manage Version models.

    This introduces a convenience function for finding the current Version
    model for the database.
    """

    def current_version(self, using=None):
        """Return the Version model for the current schema.

        This will find the Version with both the latest timestamp and the
        latest ID. It's here as a replacement for the old call to
        :py:meth:`latest`, which only operated on the timestamp and would
        find the wrong entry if two had the same exact timestamp.

        Args:
            using (unicode):
                The database alias name to use for the query. Defaults
                to ``None``, the default database.

        Raises:
            Version.DoesNotExist: No such version exists.

        Returns:
            Version: The current Version object for the database.
        """
        versions = self.using(using).order_by('-when', '-id')

        try:
            return versions[0]
        except IndexError:
            raise self.model.DoesNotExist


class SignatureField(models.TextField):
    """A field for loading and storing project signatures.

    This will handle deserializing any project signatures stored in the
    database, converting them into a
    :py:class:`~django_evolution.signatures.ProjectSignature`, and then
    writing a serialized version back to the database.
    """

    description = _('Signature')

    def contribute_to_class(self, cls, name):
        """Perform operations when added to a class.

        This will listen for when an instance is constructed in order to
        perform some initial work.

        Args:
            cls (type):
                The model class.

            name (str):
                The name of the field.
        """
        super(SignatureField, self).contribute_to_class(cls, name)

        post_init.connect(self._post_init, sender=cls)

    def value_to_string(self, obj):
        """Return a serialized string value from the field.

        Args:
            obj (django.db.models.Model):
                The model instance.

        Returns:
            unicode:
            The serialized string contents.
        """
        return self._dumps(self.value_from_object(obj))

    def to_python(self, value):
        """Return a ProjectSignature value from the field contents.

        Args:
            value (object):
                The current value assigned to the field. This might be
                serialized string content or a
                :py:class:`~django_evolution.signatures.ProjectSignature`
                instance.

        Returns:
            django_evolution.signatures.ProjectSignature:
            The project signature stored in the field.

        Raises:
            django.core.exceptions.ValidationError:
                The field contents are of an unexpected type.
        """
        if not value:
            return ProjectSignature()
        elif isinstance(value, six.string_types):
            if value.startswith('json!'):
                loaded_value = json.loads(value[len('json!'):],
                                          object_pairs_hook=OrderedDict)
            else:
                loaded_value = pickle_loads(value)

            return ProjectSignature.deserialize(loaded_value)
        elif isinstance(value, ProjectSignature):
            return value
        else:
            raise ValidationError(
                'Unsupported serialized signature type %s' % type(value),
                code='invalid',
                params={
                    'value': value,
                })

    def get_prep_value(self, value):
        """Return a prepared Python value to work with.

        This simply wraps :py:meth:`to_python`.

        Args:
            value (object):
                The current value assigned to the field. This might be
                serialized string content or a
                :py:class:`~django_evolution.signatures.ProjectSignature`
                instance.

        Returns:
            django_evolution.signatures.ProjectSignature:
            The project signature stored in the field.

        Raises:
            django.core.exceptions.ValidationError:
                The field contents are of an unexpected type.
        """
        return self.to_python(value)

    def get_db_prep_value(self, value, connection, prepared=False):
        """Return a prepared value for use in database operations.

        Args:
            value (object):
                The current value assigned to the field. This might be
                serialized string content or a
                :py:class:`~django_evolution.signatures.ProjectSignature`
                instance.

            connection (django.db.backends.base.BaseDatabaseWrapper):
                The database connection to operate on.

            prepared (bool, optional):
                Whether the value is already prepared for Python.

        Returns:
            unicode:
            The value prepared for database operations.
        """
        if not prepared:
            value = self.get_prep_value(value)

        return self._dumps(value)

    def _post_init(self, instance, **kwargs):
        """Handle the construction of a model instance.

        This will ensure the value set on the field is a valid
        :py:class:`~django_evolution.signatures.ProjectSignature` object.

        Args:
            instance (django.db.models.Model):
                The model instance being constructed.

            **kwargs (dict, unused):
                Additional keyword arguments from the signal.
        """
        setattr(instance, self.attname,
                self.to_python(self.value_from_object(instance)))

    def _dumps(self, data):
        """Serialize the project signature to a string.

        Args:
            data (object):
                The signature data to dump. This might be serialized string
                content or a
                :py:class:`~django_evolution.signatures.ProjectSignature`
                instance.

        Returns:
            unicode:
            The project signature stored in the field.

        Raises:
            TypeError:
                The data provided was not of a supported type.
        """
        if isinstance(data, six.string_types):
            return data
        elif isinstance(data, ProjectSignature):
            serialized_data = data.serialize()
            sig_version = serialized_data['__version__']

            if sig_version >= 2:
                return 'json!%s' % json.dumps(serialized_data)
            else:
                return pickle_dumps(serialized_data)
        else:
            raise TypeError('Unsupported signature type %s' % type(data))


@python_2_unicode_compatible
class Version(models.Model):
    signature = SignatureField()
    when = models.DateTimeField(default=now)

    objects = VersionManager()

    def is_hinted(self):
        """Return whether this is a hinted version.

        Hinted versions store a signature without any accompanying evolutions.

        Returns:
            bool:
            ``True`` if this is a hinted evolution. ``False`` if it's based on
            explicit evolutions.
        """
        return not self.evolutions.exists()

    def __str__(self):
        if self.is_hinted():
            return 'Hinted version, updated on %s' % self.when

        return 'Stored version, updated on %s' % self.when

    class Meta:
        ordering = ('-when',)
        db_table = 'django_project_version'


@python_2_unicode_compatible
class Evolution(models.Model):
    version = models.ForeignKey(Version,
                                related_name='evolutions',
                                on_delete=models.CASCADE)
    app_label = models.CharField(max_length=200)
    label = models.CharField(max_length=100)

    def __str__(self):
        return 'Evolution %s, applied to %s' % (self.label, self.app_label)

    class Meta:
        db_table = 'django_evolution'
        ordering = ('id',)
