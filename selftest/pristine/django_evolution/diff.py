"""Support for diffing project signatures.

Version Changed:
    2.2:
    Moved :py:class:`django_evolution.placeholders.NullFieldInitialCallback`
    into its own module.
"""

from __future__ import unicode_literals

from django.db import models

from django_evolution.compat import six
from django_evolution.compat.datastructures import OrderedDict
from django_evolution.compat.models import get_model
from django_evolution.mutations import (AddField,
                                        ChangeField,
                                        ChangeMeta,
                                        DeleteField,
                                        DeleteModel,
                                        RenameAppLabel)
from django_evolution.placeholders import NullFieldInitialCallback
from django_evolution.signature import ProjectSignature


class Diff(object):
    """Generates diffs between project signatures.

    The resulting diff is contained in two attributes::

        self.changed = {
            app_label: {
                'changed': {
                    model_name : {
                        'added': [ list of added field names ]
                        'deleted': [ list of deleted field names ]
                        'changed': {
                            field: [ list of modified property names ]
                        },
                        'meta_changed': {
                            'constraints': new value
                            'db_table_comment': new value
                            'indexes': new value
                            'index_together': new value
                            'unique_together': new value
                        }
                    }
                'deleted': [ list of deleted model names ]
            }
        }
        self.deleted = {
            app_label: [ list of models in deleted app ]
        }
    """

    def __init__(self, original_project_sig, target_project_sig):
        """Initialize the object.

        Args:
            original_project_sig (django_evolution.signature.ProjectSignature):
                The original project signature for the diff.

            target_project_sig (django_evolution.signature.ProjectSignature):
                The target project signature for the diff.
        """
        assert isinstance(original_project_sig, ProjectSignature), \
               'original_project_sig must be a ProjectSignature instance'
        assert isinstance(target_project_sig, ProjectSignature), \
               'target_project_sig must be a ProjectSignature instance'

        self.original_project_sig = original_project_sig
        self.target_project_sig = target_project_sig

        diff = target_project_sig.diff(original_project_sig)

        self.changed = diff.get('changed', OrderedDict())
        self.deleted = diff.get('deleted', OrderedDict())

        self._mutations = None

    def is_empty(self, ignore_apps=True):
        """Return whether the diff is empty.

        This is used to determine if both signatures are effectively equal. If
        ``ignore_apps`` is set, this will ignore changes caused by deleted
        applications.

        Args:
            ignore_apps (bool, optional):
                Whether to ignore changes to the applications list.

        Returns:
            bool:
            ``True`` if the diff is empty and signatures are equal.
            ``False`` if there are changes between the signatures.
        """
        if ignore_apps:
            return not self.changed
        else:
            return not self.deleted and not self.changed

    def __str__(self):
        """Return a string description of the diff.

        This will describe the changes found in the diff, for human
        consumption.

        Returns:
            unicode:
            The string representation of the diff.
        """
        lines = [
            'The application %s has been deleted' % app_label
            for app_label in self.deleted
        ]

        for app_label, app_changes in six.iteritems(self.changed):
            lines += [
                'The model %s.%s has been deleted' % (app_label, model_name)
                for model_name in app_changes.get('deleted', {})
            ]

            app_meta_changed = app_changes.get('meta_changed', {})

            if app_meta_changed:
                lines.append('In app %s:' % app_label)

                if ('app_id' in app_meta_changed or
                    'legacy_app_label' in app_meta_changed):
                    lines.append('    App label has changed')

                if 'upgrade_method' in app_meta_changed:
                    lines.append('    Schema upgrade method changed')

            app_changed = app_changes.get('changed', {})

            for model_name, change in six.iteritems(app_changed):
                lines.append('In model %s.%s:' % (app_label, model_name))
                lines += [
                    "    Field '%s' has been added" % field_name
                    for field_name in change.get('added', [])
                ] + [
                    "    Field '%s' has been deleted" % field_name
                    for field_name in change.get('deleted', [])
                ]

                changed = change.get('changed', {})

                for field_name, field_change in six.iteritems(changed):
                    lines.append("    In field '%s':" % field_name)

                    if 'field_type' in field_change:
                        # This is the only change that matters. We don't
                        # want potentially unrelated attributes to be shown.
                        field_change = ['field_type']

                    lines += [
                        "        Property '%s' has changed" % prop
                        for prop in field_change
                    ]

                lines += [
                    "    Meta property '%s' has changed" % prop_name
                    for prop_name in change.get('meta_changed', [])
                ]

        return '\n'.join(lines)

    def evolution(self):
        """Return the mutations needed for resolving the diff.

        This will attempt to return a hinted evolution, consisting of a series
        of mutations for each affected application. These mutations will
        convert the database from the original to the target signatures.

        Returns:
            collections.OrderedDict:
            An ordered dictionary of mutations. Each key is an application
            label, and each value is a list of mutations for the application.
        """
        if self._mutations is not None:
            return self._mutations

        mutations = OrderedDict()

        for app_label, app_changes in six.iteritems(self.changed):
            app_sig = self.target_project_sig.get_app_sig(app_label)
            model_changes = app_changes.get('changed', {})
            app_mutations = []

            for model_name, model_change in six.iteritems(model_changes):
                model_sig = app_sig.get_model_sig(model_name)

                # Process the list of added fields for the model.
                for field_name in model_change.get('added', {}):
                    field_sig = model_sig.get_field_sig(field_name)
                    field_type = field_sig.field_type

                    add_params = field_sig.field_attrs.copy()
                    add_params['field_type'] = field_type

                    if (not issubclass(field_type, models.ManyToManyField) and
                        not field_sig.get_attr_value('null')):
                        # This field requires an initial value. Inject either
                        # a suitable initial value or a placeholder that must
                        # be filled in by the developer.
                        add_params['initial'] = \
                            self._get_initial_value(app_label=app_label,
                                                    model_name=model_name,
                                                    field_name=field_name)

                    if field_sig.related_model:
                        add_params['related_model'] = field_sig.related_model

                    app_mutations.append(AddField(
                        model_name=model_name,
                        field_name=field_name,
                        **add_params))

                # Process the list of deleted fields for the model.
                app_mutations += [
                    DeleteField(model_name=model_name,
                                field_name=field_name)
                    for field_name in model_change.get('deleted', [])
                ]

                # Process the list of changed fields for the model.
                field_changes = model_change.get('changed', {})

                for field_name, field_change in six.iteritems(field_changes):
                    field_sig = model_sig.get_field_sig(field_name)
                    changed_attrs = OrderedDict()

                    field_type_changed = 'field_type' in field_change

                    if field_type_changed:
                        # If the field type changes, we're doing a hard
                        # reset on the attributes. We won't be showing the
                        # difference between any other attributes on here.
                        changed_attrs['field_type'] = field_sig.field_type
                        changed_attrs.update(field_sig.field_attrs)
                    else:
                        changed_attrs.update(
                            (attr, field_sig.get_attr_value(attr))
                            for attr in field_change
                        )

                    if ('null' in field_change and
                        not field_sig.get_attr_value('null') and
                        not issubclass(field_sig.field_type,
                                       models.ManyToManyField)):
                        # The field no longer allows null values, meaning an
                        # initial value is required. Inject either a suitable
                        # initial value or a placeholder that must be filled
                        # in by the developer.
                        changed_attrs['initial'] = \
                            self._get_initial_value(app_label=app_label,
                                                    model_name=model_name,
                                                    field_name=field_name)

                    if 'related_model' in field_change:
                        changed_attrs['related_model'] = \
                            field_sig.related_model

                    app_mutations.append(ChangeField(
                        model_name=model_name,
                        field_name=field_name,
                        **changed_attrs))

                # Process the Meta attribute changes for the model.
                meta_changed = model_change.get('meta_changed', [])

                # Check if the Meta.constraints property has any changes.
                # They'll all be assembled into a single ChangeMeta.
                if 'constraints' in meta_changed:
                    app_mutations.append(ChangeMeta(
                        model_name=model_name,
                        prop_name='constraints',
                        new_value=[
                            dict({
                                'type': constraint_sig.type,
                                'name': constraint_sig.name,
                            }, **constraint_sig.attrs)
                            for constraint_sig in model_sig.constraint_sigs
                        ]))

                # Check if the Meta.db_table_comment property has any changes.
                # This will be assembled into a ChangeMeta.
                if 'db_table_comment' in meta_changed:
                    app_mutations.append(ChangeMeta(
                        model_name=model_name,
                        prop_name='db_table_comment',
                        new_value=model_sig.db_table_comment))

                # Check if the Meta.indexes property has any changes.
                # They'll all be assembled into a single ChangeMeta.
                if 'indexes' in meta_changed:
                    change_meta_indexes = []

                    for index_sig in model_sig.index_sigs:
                        change_meta_index = index_sig.attrs.copy()

                        if index_sig.expressions:
                            change_meta_index['expressions'] = \
                                index_sig.expressions

                        if index_sig.fields:
                            change_meta_index['fields'] = index_sig.fields

                        if index_sig.name:
                            change_meta_index['name'] = index_sig.name

                        change_meta_indexes.append(change_meta_index)

                    app_mutations.append(ChangeMeta(
                        model_name=model_name,
                        prop_name='indexes',
                        new_value=change_meta_indexes))

                # Check Meta.index_together and Meta.unique_together.
                app_mutations += [
                    ChangeMeta(model_name=model_name,
                               prop_name=prop_name,
                               new_value=getattr(model_sig, prop_name) or [])
                    for prop_name in ('index_together', 'unique_together')
                    if prop_name in meta_changed
                ]

            # Process the list of deleted models for the application.
            app_mutations += [
                DeleteModel(model_name=model_name)
                for model_name in app_changes.get('deleted', {})
            ]

            # See if any important details about the app have changed.
            meta_changed = app_changes.get('meta_changed', {})
            app_label_changed = meta_changed.get('app_id', {})
            legacy_app_label_changed = meta_changed.get('legacy_app_label', {})

            if app_label_changed or legacy_app_label_changed:
                app_mutations.append(RenameAppLabel(
                    app_label_changed.get('old', app_sig.app_id),
                    app_label_changed.get('new', app_sig.app_id),
                    legacy_app_label=legacy_app_label_changed.get(
                        'new', app_sig.legacy_app_label)))

            if app_mutations:
                mutations[app_label] = app_mutations

        self._mutations = mutations

        return mutations

    def _get_initial_value(self, app_label, model_name, field_name):
        """Return an initial value for a field.

        If a default has been provided on the field definition or the field
        allows for an empty string, that value will be used. Otherwise, a
        placeholder callable will be used. This callable cannot actually be
        used in an evolution, but will indicate that user input is required.

        Args:
            app_label (unicode):
                The label of the application owning the model.

            model_name (unicode):
                The name of the model owning the field.

            field_name (unicode):
                The name of the field to return an initial value for.

        Returns:
            object:
            The initial value used for the field. If one cannot be computed and
            the developer must provide an explicit one,
            :py:class:`NullFieldInitialCallback` will be returned.
        """
        model = get_model(app_label, model_name)
        field = model._meta.get_field(field_name)

        if field and (field.has_default() or
                      (field.empty_strings_allowed and field.blank)):
            return field.get_default()

        return NullFieldInitialCallback(app_label=app_label,
                                        model_name=model_name,
                                        field_name=field_name)
