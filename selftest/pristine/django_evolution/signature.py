"""Classes for working with stored evolution state signatures.

These provide a way to work with the state of Django apps and their models in
an abstract way, and to deserialize from or serialize to a string. Signatures
can also be diffed, showing the changes between an older and a newer version
in order to help see how the current database's signature differs from an older
stored version.

Serialized versions of signatures are versioned, and the signature classes
handle loading and saving as any version. However, state may be lost when
downgrading a signature.

The following versions are currently supported:

Version 1:
    The original version of the signature, used up until Django Evolution
    1.0. This is in the form of::

        {
            '__version__': 1,
            '<legacy_app_label>': {
                '<model_name>': {
                    'meta': {
                        'db_table': '<table name>',
                        'db_tablespace': '<tablespace>',
                        'index_together': [
                            ('<colname>', ...),
                            ...
                        ],
                        'indexes': [
                            {
                                'name': '<name>',
                                'fields': ['<colname>', ...],
                            },
                            ...
                        ],
                        'pk_column': '<colname>',
                        'unique_together': [
                            ('<colname>', ...),
                            ...
                        ],
                        '__unique_together_applied': True|False,
                    },
                    'fields': {
                        'field_type': <class>,
                        'related_model': '<app_label>.<class_name>',
                        '<field_attr>': <value>,
                        ...
                    },
                },
                ...
            },
            ...
        }


Version 2:
    Introduced in Django Evolution 2.0. This differs from version 1 in
    that it's deeper, with explicit namespaces for apps, models, and
    field attributes that can exist alongside metadata keys. This is
    in the form of::

        {
            '__version__': 2,
            'apps': {
                '<app_label>': {
                    'legacy_app_label': '<legacy app_label>',
                    'upgrade_method': 'migrations'|'evolutions'|None,
                    'applied_migrations' ['<migration name>', ...],
                    'models': {
                        '<model_name>': {
                            'meta': {
                                'constraints': [
                                    {
                                        'name': '<name>',
                                        'type': '<class_path>',
                                        'attrs': {
                                            '<attr_name>': <value>,
                                        },
                                    },
                                    ...
                                ],
                                'db_table': '<table name>',
                                'db_tablespace': '<tablespace>',
                                'index_together': [
                                    ('<colname>', ...),
                                    ...
                                ],
                                'indexes': [
                                    {
                                        'name': '<name>',
                                        'fields': ['<colname>', ...],
                                        'expressions': [
                                            {<deconstructed>},
                                            ...
                                        ],
                                        'attrs': {
                                            'condition': {<deconstucted>},
                                            'db_tablespace': '<string>',
                                            'include': ['<name>', ...],
                                            'opclasses': ['<name>', ...],
                                        },
                                    },
                                    ...
                                ],
                                'pk_column': '<colname>',
                                'unique_together': [
                                    ('<colname>', ...),
                                    ...
                                ],
                                '__unique_together_applied': True|False,
                            },
                            'fields': {
                                'type': '<class_path>',
                                'related_model': '<app_label>.<class_name>',
                                'attrs': {
                                    '<field_attr_name>': <value>,
                                    ...
                                },
                            },
                        },
                        ...
                    },
                },
                ...
            },
        }
"""

from __future__ import unicode_literals

from copy import deepcopy
from importlib import import_module

from django.conf import global_settings
from django.core.exceptions import ImproperlyConfigured
from django.db import DEFAULT_DB_ALIAS, models

from django_evolution.compat import six
from django_evolution.compat.apps import get_apps, get_app
from django_evolution.compat.datastructures import OrderedDict
from django_evolution.compat.db import db_router_allows_schema_upgrade
from django_evolution.compat.models import (GenericRelation,
                                            get_models,
                                            get_remote_field,
                                            get_remote_field_model)
from django_evolution.compat.translation import gettext as _
from django_evolution.conf import django_evolution_settings
from django_evolution.consts import UpgradeMethod
from django_evolution.errors import (InvalidSignatureVersion,
                                     MissingSignatureError)
from django_evolution.serialization import (deserialize_from_signature,
                                            serialize_to_signature)
from django_evolution.utils.apps import get_app_label, get_legacy_app_label
from django_evolution.utils.evolutions import get_app_upgrade_info
from django_evolution.utils.migrations import MigrationList


#: The latest signature version.
LATEST_SIGNATURE_VERSION = 2


class BaseSignature(object):
    """Base class for a signature."""

    @classmethod
    def deserialize(self, sig_dict, sig_version, database=DEFAULT_DB_ALIAS):
        """Deserialize the signature.

        Args:
            sig_dict (dict):
                The dictionary containing signature data.

            sig_version (int):
                The stored signature version.

            database (unicode, optional):
                The name of the database.

        Returns:
            BaseSignature:
            The resulting signature class.

        Raises:
            django_evolution.errors.InvalidSignatureVersion:
                The signature version provided isn't supported.
        """
        raise NotImplementedError

    def diff(self, old_sig):
        """Diff against an older signature.

        The resulting data is dependent on the type of signature.

        Args:
            old_sig (BaseSignature):
                The old signature to diff against.

        Returns:
            object:
            The resulting diffed data.
        """
        raise NotImplementedError

    def clone(self):
        """Clone the signature.

        Returns:
            BaseSignature:
            The cloned signature.
        """
        raise NotImplementedError

    def serialize(self, sig_version=LATEST_SIGNATURE_VERSION):
        """Serialize data to a signature dictionary.

        Args:
            sig_version (int, optional):
                The signature version to serialize as. This always defaults
                to the latest.

        Returns:
            dict:
            The serialized data.

        Raises:
            django_evolution.errors.InvalidSignatureVersion:
                The signature version provided isn't supported.
        """
        raise NotImplementedError

    def __eq__(self, other):
        """Return whether two signatures are equal.

        Args:
            other (BaseSignature):
                The other signature.

        Returns:
            bool:
            ``True`` if the project signatures are equal. ``False`` if they
            are not.
        """
        raise NotImplementedError

    def __ne__(self, other):
        """Return whether two signatures are not equal.

        Args:
            other (BaseSignature):
                The other signature.

        Returns:
            bool:
            ``True`` if the project signatures are not equal. ``False`` if they
            are equal.
        """
        return not (self == other)

    def __repr__(self):
        """Return a string representation of the signature.

        Returns:
            unicode:
            A string representation of the signature.
        """
        raise NotImplementedError


class ProjectSignature(BaseSignature):
    """Signature information for a project.

    Projects are the top-level signature deserialized from and serialized to
    a :py:class:`~django_evolution.models.Version` model. They contain a
    signature version and information on all the applications tracked for the
    project.
    """

    @classmethod
    def from_database(cls, database):
        """Create a project signature from the database.

        This will look up all the applications registered in Django, turning
        each of them into a :py:class:`AppSignature` stored in this
        project signature.

        Args:
            database (unicode):
                The name of the database.

        Returns:
            ProjectSignature:
            The project signature based on the current application and
            database state.
        """
        project_sig = cls()

        for app in get_apps():
            project_sig.add_app(app, database)

        return project_sig

    @classmethod
    def deserialize(cls, project_sig_dict, database=DEFAULT_DB_ALIAS):
        """Deserialize a serialized project signature.

        Args:
            project_sig_dict (dict):
                The dictionary containing project signature data.

            database (unicode, optional):
                The name of the database.

        Returns:
            ProjectSignature:
            The resulting signature instance.

        Raises:
            django_evolution.errors.InvalidSignatureVersion:
                The signature version found in the dictionary is unsupported.
        """
        sig_version = project_sig_dict['__version__']
        validate_sig_version(sig_version)

        project_sig = cls()

        if sig_version == 2:
            app_sigs_dict = project_sig_dict['apps']
        elif sig_version == 1:
            app_sigs_dict = OrderedDict(
                (app_id, app_sig_dict)
                for app_id, app_sig_dict in six.iteritems(project_sig_dict)
                if app_id != '__version__'
            )

        for app_id, app_sig_dict in six.iteritems(app_sigs_dict):
            project_sig.add_app_sig(AppSignature.deserialize(
                app_id=app_id,
                app_sig_dict=app_sig_dict,
                sig_version=sig_version,
                database=database))

        return project_sig

    def __init__(self):
        """Initialize the signature."""
        self._app_sigs = OrderedDict()

    @property
    def app_sigs(self):
        """The application signatures in the project signature."""
        return six.itervalues(self._app_sigs)

    def add_app(self, app, database):
        """Add an application to the project signature.

        This will construct an :py:class:`AppSignature` and add it
        to the project signature.

        Args:
            app (module):
                The application module to create the signature from.

            database (unicode):
                The database name.
        """
        self.add_app_sig(AppSignature.from_app(app, database))

    def add_app_sig(self, app_sig):
        """Add an application signature to the project signature.

        Args:
            app_sig (AppSignature):
                The application signature to add.
        """
        self._app_sigs[app_sig.app_id] = app_sig

    def remove_app_sig(self, app_id):
        """Remove an application signature from the project signature.

        Args:
            app_id (unicode):
                The ID of the application signature to remove.

        Raises:
            django_evolution.errors.MissingSignatureError:
                The application ID does not represent a known application
                signature.
        """
        try:
            del self._app_sigs[app_id]
        except KeyError:
            raise MissingSignatureError(
                _('An application signature for "%s" could not be found.')
                % app_id)

    def get_app_sig(self, app_id, required=False):
        """Return an application signature with the given ID.

        Args:
            app_id (unicode):
                The ID of the application signature. This may be a modern
                app label, or a legacy app label.

            required (bool, optional):
                Whether the app signature must be present. If ``True`` and
                the signature is missing, this will raise an exception.

        Returns:
            AppSignature:
            The application signature, if found. If no application signature
            matches the ID, ``None`` will be returned.

        Raises:
            django_evolution.errors.MissingSignatureError:
                The application signature was not found, and ``required`` was
                ``True``.
        """
        app_sig = self._app_sigs.get(app_id)

        if app_sig is None:
            for temp_app_sig in six.itervalues(self._app_sigs):
                if temp_app_sig.legacy_app_label == app_id:
                    app_sig = temp_app_sig
                    break

        if app_sig is None and required:
            raise MissingSignatureError(
                _('Unable to find an application signature for "%s". '
                  'syncdb/migrate might need to be run first.')
                % (app_id,))

        return app_sig

    def diff(self, old_project_sig):
        """Diff against an older project signature.

        This will return a dictionary of changes between two project
        signatures.

        Args:
            old_project_sig (ProjectSignature):
                The old project signature to diff against.

        Returns:
            collections.OrderedDict:
            A dictionary in the following form::

                {
                    'changed': {
                        <app ID>: <AppSignature diff>,
                        ...
                    },
                    'deleted': [
                        <app ID>: [
                            <model name>,
                            ...
                        ],
                        ...
                    ],
                }

            Any key lacking a value will be ommitted from the diff.

        Raises:
            TypeError:
                The old signature provided was not a
                :py:class:`ProjectSignature`.
        """
        if not isinstance(old_project_sig, ProjectSignature):
            raise TypeError('Must provide a ProjectSignature to diff against, '
                            'not a %s.' % type(old_project_sig))

        changed_apps = OrderedDict()
        deleted_apps = OrderedDict()

        for old_app_sig in old_project_sig.app_sigs:
            new_app_sig = self.get_app_sig(old_app_sig.app_id)

            if new_app_sig:
                app_changes = new_app_sig.diff(old_app_sig)

                if app_changes:
                    # There are changes for this application. Store that
                    # in the diff.
                    changed_apps[new_app_sig.app_id] = app_changes
            else:
                # The application has been deleted.
                deleted_apps[old_app_sig.app_id] = [
                    model_sig.model_name
                    for model_sig in old_app_sig.model_sigs
                ]

        return OrderedDict(
            (key, value)
            for key, value in (('changed', changed_apps),
                               ('deleted', deleted_apps))
            if value
        )

    def clone(self):
        """Clone the signature.

        Returns:
            ProjectSignature:
            The cloned signature.
        """
        cloned_sig = ProjectSignature()

        for app_sig in self.app_sigs:
            cloned_sig.add_app_sig(app_sig.clone())

        return cloned_sig

    def serialize(self, sig_version=LATEST_SIGNATURE_VERSION):
        """Serialize project data to a signature dictionary.

        Args:
            sig_version (int, optional):
                The signature version to serialize as. This always defaults
                to the latest.

        Returns:
            dict:
            The serialized data.

        Raises:
            django_evolution.errors.InvalidSignatureVersion:
                The signature version provided isn't supported.
        """
        validate_sig_version(sig_version)

        project_sig_dict = {
            '__version__': sig_version,
        }

        if sig_version == 2:
            app_sigs_dict = OrderedDict()
            project_sig_dict['apps'] = app_sigs_dict
        elif sig_version == 1:
            app_sigs_dict = project_sig_dict

        for app_id, app_sig in six.iteritems(self._app_sigs):
            app_sigs_dict[app_id] = app_sig.serialize(sig_version)

        return project_sig_dict

    def __eq__(self, other):
        """Return whether two project signatures are equal.

        Args:
            other (ProjectSignature):
                The other project signature.

        Returns:
            bool:
            ``True`` if the project signatures are equal. ``False`` if they
            are not.
        """
        return (other is not None and
                dict.__eq__(self._app_sigs, other._app_sigs))

    def __repr__(self):
        """Return a string representation of the signature.

        Returns:
            unicode:
            A string representation of the signature.
        """
        return ('<ProjectSignature(apps=%r)>'
                % list(six.iterkeys(self._app_sigs)))


class AppSignature(BaseSignature):
    """Signature information for an application.

    Application signatures store information on a Django application and all
    models registered under that application.
    """

    @classmethod
    def from_app(cls, app, database):
        """Create an application signature from an application.

        This will store data on the application and create a
        :py:class:`ModelSignature` for each of the application's models.

        Args:
            app (module):
                The application module to create the signature from.

            database (unicode):
                The name of the database.

        Returns:
            AppSignature:
            The application signature based on the application.
        """
        app_label = get_app_label(app)
        app_upgrade_info = get_app_upgrade_info(app,
                                                simulate_applied=True,
                                                database=database)

        app_sig = cls(
            app_id=app_label,
            legacy_app_label=get_legacy_app_label(app),
            upgrade_method=app_upgrade_info.get('upgrade_method'),
            applied_migrations=app_upgrade_info.get('applied_migrations'))

        for model in get_models(app):
            if db_router_allows_schema_upgrade(database, app_label, model):
                app_sig.add_model(model)

        return app_sig

    @classmethod
    def deserialize(cls, app_id, app_sig_dict, sig_version,
                    database=DEFAULT_DB_ALIAS):
        """Deserialize a serialized application signature.

        Args:
            app_id (unicode):
                The application ID.

            app_sig_dict (dict):
                The dictionary containing application signature data.

            sig_version (int):
                The version of the serialized signature data.

            database (unicode, optional):
                The name of the database.

        Returns:
            AppSignature:
            The resulting signature instance.

        Raises:
            django_evolution.errors.InvalidSignatureVersion:
                The signature version provided isn't supported.
        """
        validate_sig_version(sig_version)

        legacy_app_label = None
        upgrade_method = None
        applied_migrations = None

        if sig_version == 2:
            model_sigs_dict = app_sig_dict['models']
            legacy_app_label = app_sig_dict['legacy_app_label']
            upgrade_method = app_sig_dict.get('upgrade_method')
            applied_migrations = app_sig_dict.get('applied_migrations')
        elif sig_version == 1:
            model_sigs_dict = app_sig_dict
            legacy_app_label = app_id

            # Try to figure out the upgrade method for this app, factoring in
            # just the presence of evolutions/migrations directories (*not*
            # scanning for any mutations that change the upgrade method).
            #
            # This might not find an upgrade method, which is okay. Other
            # heuristics during diffing will try to deal with unknown upgrade
            # methods, and when all else fails, explicit mutations can be
            # added to set the record straight.
            try:
                upgrade_info = get_app_upgrade_info(get_app(app_id),
                                                    scan_evolutions=False,
                                                    database=database)
                upgrade_method = upgrade_info.get('upgrade_method')
                applied_migrations = upgrade_info.get('applied_migrations')
            except ImproperlyConfigured:
                # An app with the ID couldn't be found. This is likely either
                # an issue with an app label change, a deleted app, or an
                # app that is dynamically added later.
                pass

        app_sig = cls(app_id=app_id,
                      legacy_app_label=legacy_app_label,
                      upgrade_method=upgrade_method,
                      applied_migrations=applied_migrations)
        app_sig._loaded_sig_version = sig_version

        for model_name, model_sig_dict in six.iteritems(model_sigs_dict):
            app_sig.add_model_sig(
                ModelSignature.deserialize(model_name=model_name,
                                           model_sig_dict=model_sig_dict,
                                           sig_version=sig_version,
                                           database=database))

        return app_sig

    def __init__(self, app_id, legacy_app_label=None, upgrade_method=None,
                 applied_migrations=None):
        """Initialize the signature.

        Args:
            app_id (unicode):
                The ID of the application. This will be the application label.
                On modern versions of Django, this may differ from the
                legacy app label.

            legacy_app_label (unicode, optional):
                The legacy label for the application. This is based on the
                module name.

            upgrade_method (unicode, optional):
                The upgrade method used for this application. This must be
                a value from
                :py:class:`~django_evolution.evolve.UpgradeMethod`, or
                ``None``.

            applied_migrations (set of unicode, optional):
                The migration names that are applied as of this signature.
        """
        self.app_id = app_id
        self.legacy_app_label = legacy_app_label or app_id
        self.upgrade_method = upgrade_method
        self.applied_migrations = applied_migrations

        self._loaded_sig_version = None
        self._model_sigs = OrderedDict()

    @property
    def model_sigs(self):
        """The model signatures stored on the application signature."""
        return six.itervalues(self._model_sigs)

    @property
    def applied_migrations(self):
        """The set of migration names applied to the app.

        Type:
            set of unicode
        """
        return self._applied_migrations

    @applied_migrations.setter
    def applied_migrations(self, value):
        """Set the migration names applied to the app.

        Args:
            value (set or list or
                   django_evolution.utils.migrations.MigratonList):
                The new migration names. This may be an explicit set/list
                of migration names, or it can be a MigrationList, of which
                only the migration names relevant to this app will be stored.
        """
        if isinstance(value, MigrationList):
            value = [
                info['name']
                for info in value
                if info['app_label'] == self.app_id
            ]

        if value is not None:
            value = set(value)

        self._applied_migrations = value

    def is_empty(self):
        """Return whether the application signature is empty.

        An empty application signature contains no models.

        Returns:
            bool:
            ``True`` if the signature is empty. ``False`` if it still has
            models in it.
        """
        return not bool(self._model_sigs)

    def add_model(self, model):
        """Add a model to the application signature.

        This will construct a :py:class:`ModelSignature` and add it to this
        application signature.

        Args:
            model (django.db.models.Model):
                The model to create the signature from.
        """
        self.add_model_sig(ModelSignature.from_model(model))

    def add_model_sig(self, model_sig):
        """Add a model signature to the application signature.

        Args:
            model_sig (ModelSignature):
                The model signature to add.
        """
        self._model_sigs[model_sig.model_name] = model_sig

    def remove_model_sig(self, model_name):
        """Remove a model signature from the application signature.

        Args:
            model_name (unicode):
                The name of the model.

        Raises:
            django_evolution.errors.MissingSignatureError:
                The model name does not represent a known model signature.
        """
        try:
            del self._model_sigs[model_name]
        except KeyError:
            raise MissingSignatureError(
                _('A model signature for "%s" could not be found.')
                % model_name)

    def clear_model_sigs(self):
        """Clear all model signatures from the application signature."""
        self._model_sigs.clear()

    def get_model_sig(self, model_name, required=False):
        """Return a model signature for the given model name.

        Args:
            model_name (unicode):
                The name of the model.

            required (bool, optional):
                Whether the model signature must be present. If ``True`` and
                the signature is missing, this will raise an exception.

        Returns:
            ModelSignature:
            The model signature, if found. If no model signature matches
            the model name, ``None`` will be returned.

        Raises:
            django_evolution.errors.MissingSignatureError:
                The model signature was not found, and ``required`` was
                ``True``.
        """
        model_sig = self._model_sigs.get(model_name)

        if model_sig is None and required:
            raise MissingSignatureError(
                _('Unable to find a model signature for "%s.%s". '
                  'syncdb/migrate might need to be run first.')
                % (self.app_id, model_name))

        return model_sig

    def diff(self, old_app_sig):
        """Diff against an older application signature.

        This will return a dictionary containing the differences between
        two application signatures.

        Args:
            old_app_sig (AppSignature):
                The old app signature to diff against.

        Returns:
            collections.OrderedDict:
            A dictionary in the following form::

                {
                    'changed': {
                        '<model_name>': <ModelSignature diff>,
                        ...
                    },
                    'deleted': [ <list of deleted model names> ],
                    'meta_changed': {
                        '<prop_name>': {
                            'old': <old value>,
                            'new': <new value>,
                        },
                        ...
                    }
                }

            Any key lacking a value will be ommitted from the diff.

        Raises:
            TypeError:
                The old signature provided was not an :py:class:`AppSignature`.
        """
        if not isinstance(old_app_sig, AppSignature):
            raise TypeError('Must provide an AppSignature to diff against, '
                            'not a %s.' % type(old_app_sig))

        deleted_models = []
        changed_models = OrderedDict()
        meta_changed = OrderedDict()

        # Process the models in the application, looking for changes to
        # fields and meta attributes.
        for old_model_sig in old_app_sig.model_sigs:
            model_name = old_model_sig.model_name
            new_model_sig = self.get_model_sig(model_name)

            if new_model_sig:
                model_changes = new_model_sig.diff(old_model_sig)

                if model_changes:
                    # There are changes for this model. Store that in the
                    # diff.
                    changed_models[model_name] = model_changes
            else:
                # The model has been deleted.
                deleted_models.append(model_name)

        # Check for changes to basic metadata for the app.
        for key in ('app_id', 'legacy_app_label'):
            old_value = getattr(old_app_sig, key)
            new_value = getattr(self, key)

            if old_value != new_value:
                meta_changed[key] = {
                    'old': old_value,
                    'new': new_value,
                }

        # Check if the upgrade method has changed. We have to do this a bit
        # carefully, as the old value might be None, due to:
        #
        # 1. Coming from a version 1 signature (meaning that we only care if
        #    there are actual changes to the app and we're also transitioning
        #    to Migrations)
        #
        # 2. Coming from a version 2 signature (including a database scan)
        #    and the old signature doesn't list an upgrade method for the
        #    app (meaning it likely didn't use either evolutions or
        #    migrations).
        old_upgrade_method = old_app_sig.upgrade_method
        new_upgrade_method = self.upgrade_method
        old_sig_version = old_app_sig._loaded_sig_version

        if (old_upgrade_method != new_upgrade_method and
            ((old_sig_version is None and
              old_upgrade_method is not None) or
             (old_sig_version == 1 and
              (changed_models or deleted_models) and
              old_upgrade_method is None and
              new_upgrade_method != UpgradeMethod.EVOLUTIONS))):
            # The upgrade method has changed. If we're moving to migrations,
            # discard any other changes to the model. We're working with the
            # assumption that the migrations will account for any changes.
            #
            # The assumption may technically be wrong (there may be
            # evolutions to apply before migrations takes over), but we can't
            # easily separate out the changes made by each method. However,
            # since we've recorded a change to this app, the evolver will
            # still apply any remaining evolutions, so we're covered.
            meta_changed['upgrade_method'] = {
                'old': old_upgrade_method,
                'new': new_upgrade_method,
            }

        if new_upgrade_method == UpgradeMethod.MIGRATIONS:
            # If we're using migrations, we don't want to show any other
            # changes to the models. Those are handled by migrations, and
            # aren't something we want to include in the diff, since they
            # can't be resolved by evolutions.
            changed_models.clear()
            deleted_models = []

        # Build the dictionary of changes for the app.
        return OrderedDict(
            (key, value)
            for key, value in (('changed', changed_models),
                               ('deleted', deleted_models),
                               ('meta_changed', meta_changed))
            if value
        )

    def clone(self):
        """Clone the signature.

        Returns:
            AppSignature:
            The cloned signature.
        """
        cloned_sig = AppSignature(
            app_id=self.app_id,
            legacy_app_label=self.legacy_app_label,
            upgrade_method=self.upgrade_method,
            applied_migrations=deepcopy(self.applied_migrations))

        for model_sig in self.model_sigs:
            cloned_sig.add_model_sig(model_sig.clone())

        return cloned_sig

    def serialize(self, sig_version=LATEST_SIGNATURE_VERSION):
        """Serialize application data to a signature dictionary.

        Args:
            sig_version (int, optional):
                The signature version to serialize as. This always defaults
                to the latest.

        Returns:
            dict:
            The serialized data.

        Raises:
            django_evolution.errors.InvalidSignatureVersion:
                The signature version provided isn't supported.
        """
        validate_sig_version(sig_version)

        app_sig_dict = OrderedDict()

        if sig_version == 2:
            app_sig_dict['legacy_app_label'] = self.legacy_app_label

            if self.upgrade_method:
                app_sig_dict['upgrade_method'] = self.upgrade_method

                if self.upgrade_method == UpgradeMethod.MIGRATIONS:
                    app_sig_dict['applied_migrations'] = \
                        sorted(self.applied_migrations or [])

            # Add an ordered dictionary of models to the signature.
            model_sigs_dict = OrderedDict()
            app_sig_dict['models'] = model_sigs_dict
        elif sig_version == 1:
            model_sigs_dict = app_sig_dict

        for model_name, model_sig in six.iteritems(self._model_sigs):
            model_sigs_dict[model_name] = model_sig.serialize(sig_version)

        return app_sig_dict

    def __eq__(self, other):
        """Return whether two application signatures are equal.

        Args:
            other (AppSignature):
                The other application signature.

        Returns:
            bool:
            ``True`` if the application signatures are equal. ``False`` if
            they are not.
        """
        return (other is not None and
                self.app_id == other.app_id and
                self.legacy_app_label == other.legacy_app_label and
                self.upgrade_method == other.upgrade_method and
                self.applied_migrations == other.applied_migrations and
                dict.__eq__(self._model_sigs, other._model_sigs))

    def __repr__(self):
        """Return a string representation of the signature.

        Returns:
            unicode:
            A string representation of the signature.
        """
        return ('<AppSignature(app_id=%r, legacy_app_label=%r,'
                ' upgrade_method=%r, models=%r)>'
                % (self.app_id, self.legacy_app_label, self.upgrade_method,
                   list(six.iterkeys(self._model_sigs))))


class ModelSignature(BaseSignature):
    """Signature information for a model.

    Model signatures store information on the model and include signatures for
    its fields and ``_meta`` attributes.
    """

    @classmethod
    def from_model(cls, model):
        """Create a model signature from a model.

        This will store data on the model and its ``_meta`` attributes, and
        create a :py:class:`FieldSignature` for each field.

        Args:
            model (django.db.models.Model):
                The model to create a signature from.

        Returns:
            ModelSignature:
            The signature based on the model.
        """
        meta = model._meta
        model_sig = cls(db_tablespace=meta.db_tablespace,
                        index_together=meta.index_together,
                        model_name=meta.object_name,
                        pk_column=six.text_type(meta.pk.column),
                        table_name=meta.db_table,
                        unique_together=meta.unique_together,
                        unique_together_applied=True)

        if getattr(meta, 'db_table_comment', None):
            # Django >= 4.2
            model_sig.db_table_comment = meta.db_table_comment

        if getattr(meta, 'constraints', None):
            # Django >= 2.2
            for constraint in meta.original_attrs['constraints']:
                model_sig.add_constraint(constraint)

        if getattr(meta, 'indexes', None):
            # Django >= 1.11
            for index in meta.original_attrs['indexes']:
                model_sig.add_index(index)

        for field in meta.local_fields + meta.local_many_to_many:
            # Don't generate a signature for generic relations.
            if not isinstance(field, GenericRelation):
                model_sig.add_field(field)

        return model_sig

    @classmethod
    def deserialize(cls, model_name, model_sig_dict, sig_version,
                    database=DEFAULT_DB_ALIAS):
        """Deserialize a serialized model signature.

        Args:
            model_name (unicode):
                The model name.

            model_sig_dict (dict):
                The dictionary containing model signature data.

            sig_version (int):
                The version of the serialized signature data.

            database (unicode, optional):
                The name of the database.

        Returns:
            ModelSignature:
            The resulting signature instance.

        Raises:
            django_evolution.errors.InvalidSignatureVersion:
                The signature version provided isn't supported.
        """
        validate_sig_version(sig_version)

        meta_sig_dict = model_sig_dict['meta']
        fields_sig_dict = model_sig_dict['fields']

        model_sig = cls(
            db_table_comment=meta_sig_dict.get('db_table_comment'),
            db_tablespace=meta_sig_dict.get('db_tablespace'),
            index_together=meta_sig_dict.get('index_together', []),
            model_name=model_name,
            pk_column=meta_sig_dict.get('pk_column'),
            table_name=meta_sig_dict.get('db_table'),
            unique_together=meta_sig_dict.get('unique_together', []),
            unique_together_applied=meta_sig_dict.get(
                '__unique_together_applied', False))

        # Django >= 2.2
        for constraint_sig_dict in meta_sig_dict.get('constraints', []):
            model_sig.add_constraint_sig(
                ConstraintSignature.deserialize(
                    constraint_sig_dict=constraint_sig_dict,
                    sig_version=sig_version,
                    database=database))

        # Django >= 1.11
        for index_sig_dict in meta_sig_dict.get('indexes', []):
            model_sig.add_index_sig(
                IndexSignature.deserialize(index_sig_dict=index_sig_dict,
                                           sig_version=sig_version,
                                           database=database))

        for field_name, field_sig_dict in six.iteritems(fields_sig_dict):
            model_sig.add_field_sig(
                FieldSignature.deserialize(field_name=field_name,
                                           field_sig_dict=field_sig_dict,
                                           sig_version=sig_version,
                                           database=database))

        return model_sig

    def __init__(self, model_name, table_name, db_tablespace=None,
                 index_together=[], pk_column=None, unique_together=[],
                 unique_together_applied=False, db_table_comment=None):
        """Initialize the signature.

        Args:
            model_name (unicode):
                The name of the model.

            table_name (unicode):
                The name of the table in the database.

            db_tablespace (unicode, optional):
                The tablespace for the model. This is database-specific.

            index_together (list of tuple, optional):
                A list of fields that are indexed together.

            pk_column (unicode, optional):
                The column for the primary key.

            unique_together (list of tuple, optional):
                The list of fields that are unique together.

            unique_together_applied (bool, optional):
                Whether the ``unique_together`` value was applied to the
                database, rather than simply stored in the signature.

                Version Added:
                    2.1.3

            db_table_comment (str, optional):
                The table comment applied to the database.

                Version Added:
                    2.3
        """
        self.model_name = model_name
        self.db_table_comment = db_table_comment
        self.db_tablespace = db_tablespace
        self.table_name = table_name
        self.pk_column = pk_column

        self.constraint_sigs = []
        self.index_sigs = []
        self._field_sigs = OrderedDict()
        self._index_together = []
        self._unique_together = []
        self._unique_together_applied = unique_together_applied

        # Set these after we've set up the private state backing it.
        self.index_together = index_together
        self.unique_together = unique_together

    @property
    def index_together(self):
        """A list of fields that are indexed together.

        Type:
            list
        """
        return self._index_together

    @index_together.setter
    def index_together(self, new_value):
        """A list of fields that are indexed together.

        When setting this property, the value will be normalized for storage
        and comparison.

        Args:
            new_value (list):
                The new list of fields indexed together.
        """
        self._index_together = self._normalize_together(new_value)

    @property
    def unique_together(self):
        """A list of fields that are unique together.

        Type:
            list
        """
        return self._unique_together

    @unique_together.setter
    def unique_together(self, new_value):
        """A list of fields that are unique together.

        When setting this property, the value will be normalized for storage
        and comparison.

        Args:
            new_value (list):
                The new list of fields that are unique together.
        """
        self._unique_together = self._normalize_together(new_value)

    @property
    def field_sigs(self):
        """The field signatures on the model signature."""
        return six.itervalues(self._field_sigs)

    def add_field(self, field):
        """Add a field to the model signature.

        This will construct a :py:class:`FieldSignature` and add it to this
        model signature.

        Args:
            field (django.db.models.Field):
                The field to create the signature from.
        """
        self.add_field_sig(FieldSignature.from_field(field))

    def add_field_sig(self, field_sig):
        """Add a field signature to the model signature.

        Args:
            field_sig (FieldSignature):
                The field signature to add.
        """
        self._field_sigs[field_sig.field_name] = field_sig

    def remove_field_sig(self, field_name):
        """Remove a field signature from the model signature.

        Args:
            field_name (unicode):
                The name of the field.

        Raises:
            django_evolution.errors.MissingSignatureError:
                The field name does not represent a known field signature.
        """
        try:
            del self._field_sigs[field_name]
        except KeyError:
            raise MissingSignatureError(
                _('A field signature for "%s" could not be found.')
                % field_name)

    def get_field_sig(self, field_name, required=False):
        """Return a field signature for the given field name.

        Args:
            field_name (unicode):
                The name of the field.

            required (bool, optional):
                Whether the model signature must be present. If ``True`` and
                the signature is missing, this will raise an exception.

        Returns:
            FieldSignature:
            The field signature, if found. If no field signature matches
            the field name, ``None`` will be returned.

        Raises:
            django_evolution.errors.MissingSignatureError:
                The model signature was not found, and ``required`` was
                ``True``.
        """
        field_sig = self._field_sigs.get(field_name)

        if field_sig is None and required:
            raise MissingSignatureError(
                _('Unable to find a field signature for "%s.%s". '
                  'syncdb/migrate might need to be run first.')
                % (self.model_name, field_name))

        return field_sig

    def add_constraint(self, constraint):
        """Add an explicit constraint to the models.

        This is only used on Django 2.2 or higher. It corresponds to the
        :py:attr:`model._meta.constraints
        <django.db.models.Options.constraints` attribute.

        Args:
            constraint (django.db.models.BaseConstraint):
                The constraint to add.
        """
        self.add_constraint_sig(
            ConstraintSignature.from_constraint(constraint))

    def add_constraint_sig(self, constraint_sig):
        """Add an explicit constraint signature to the models.

        This is only used on Django 2.2 or higher. It corresponds to the
        :py:attr:`model._meta.constraints
        <django.db.models.Options.constraints` attribute.

        Args:
            constraint_sig (ConstraintSignature):
                The constraint signature to add.
        """
        self.constraint_sigs.append(constraint_sig)

    def add_index(self, index):
        """Add an explicit index to the models.

        This is only used on Django 1.11 or higher. It corresponds to the
        :py:attr:`model._meta.indexes <django.db.models.Options.indexes`
        attribute.

        Args:
            index (django.db.models.Index):
                The index to add.
        """
        self.add_index_sig(IndexSignature.from_index(index))

    def add_index_sig(self, index_sig):
        """Add an explicit index signature to the models.

        This is only used on Django 1.11 or higher. It corresponds to the
        :py:attr:`model._meta.indexes <django.db.models.Options.indexes`
        attribute.

        Args:
            index_sig (IndexSignature):
                The index signature to add.
        """
        self.index_sigs.append(index_sig)

    def apply_unique_together(self, unique_together):
        """Record an applied unique_together change to the model.

        This will store the new unique together value and set a flag indicating
        it's been applied to the database.

        The flag exists to deal with a situation from old versions of
        Django Evolution where the unique_together state was stored in the
        signature but not applied to the database.

        Version Added:
            2.1.3

        Args:
            unique_together (list):
                The new unique_together value.
        """
        self.unique_together = unique_together
        self._unique_together_applied = True

    def has_unique_together_changed(self, old_model_sig):
        """Return whether unique_together has changed between signatures.

        ``unique_together`` is considered to have changed under the following
        conditions:

        * They are different in value.
        * Either the old or new is non-empty (even if equal) and evolving
          from an older signature from Django Evolution pre-0.7, where
          unique_together wasn't applied to the database.

        Args:
            old_model_sig (ModelSignature):
                The old model signature to compare against.

        Return:
            bool:
            ``True`` if the value has changed. ``False`` if they're
            considered equal for the purposes of evolution.
        """
        old_unique_together = old_model_sig.unique_together
        new_unique_together = self.unique_together

        return (old_unique_together != new_unique_together or
                ((old_unique_together or new_unique_together) and
                 old_model_sig._unique_together_applied is not
                 self._unique_together_applied))

    def diff(self, old_model_sig):
        """Diff against an older model signature.

        This will return a dictionary containing the differences in fields
        and meta information between two signatures.

        Args:
            old_model_sig (ModelSignature):
                The old model signature to diff against.

        Returns:
            collections.OrderedDict:
            A dictionary in the following form::

                {
                    'added': [
                        <field name>,
                        ...
                    ],
                    'deleted': [
                        <field name>,
                        ...
                    ],
                    'changed': {
                        <field name>: <FieldSignature diff>,
                        ...
                    },
                    'meta_changed': [
                        <'constraints'>,
                        <'indexes'>,
                        <'index_together'>,
                        <'unique_together'>,
                    ],
                }

            Any key lacking a value will be ommitted from the diff.

        Raises:
            TypeError:
                The old signature provided was not a
                :py:class:`ModelSignature`.
        """
        if not isinstance(old_model_sig, ModelSignature):
            raise TypeError('Must provide a ModelSignature to diff against, '
                            'not a %s.' % type(old_model_sig))

        # Go through all the fields, looking for changed and deleted fields.
        changed_fields = OrderedDict()
        deleted_fields = []

        for old_field_sig in old_model_sig.field_sigs:
            field_name = old_field_sig.field_name
            new_field_sig = self.get_field_sig(field_name)

            if new_field_sig:
                # Go through all the attributes on the field, looking for
                # changes.
                changed_field_attrs = new_field_sig.diff(old_field_sig)

                if changed_field_attrs:
                    # There were attribute changes. Store those with the field.
                    changed_fields[field_name] = changed_field_attrs
            else:
                # The field has been deleted.
                deleted_fields.append(field_name)

        # Go through the list of added fields and add any that don't
        # exist in the original field list.
        added_fields = [
            field_sig.field_name
            for field_sig in self.field_sigs
            if not old_model_sig.get_field_sig(field_sig.field_name)
        ]

        # Build a list of changes to Model.Meta attributes.
        meta_changed = []

        if self.has_unique_together_changed(old_model_sig):
            meta_changed.append('unique_together')

        if self.index_together != old_model_sig.index_together:
            meta_changed.append('index_together')

        if list(self.index_sigs) != list(old_model_sig.index_sigs):
            meta_changed.append('indexes')

        if list(self.constraint_sigs) != list(old_model_sig.constraint_sigs):
            meta_changed.append('constraints')

        if self.db_table_comment != old_model_sig.db_table_comment:
            meta_changed.append('db_table_comment')

        return OrderedDict(
            (key, value)
            for key, value in (('added', added_fields),
                               ('changed', changed_fields),
                               ('deleted', deleted_fields),
                               ('meta_changed', meta_changed))
            if value
        )

    def clone(self):
        """Clone the signature.

        Returns:
            ModelSignature:
            The cloned signature.
        """
        cloned_sig = ModelSignature(
            model_name=self.model_name,
            table_name=self.table_name,
            db_tablespace=self.db_tablespace,
            db_table_comment=self.db_table_comment,
            index_together=self.index_together,
            pk_column=self.pk_column,
            unique_together=self.unique_together)
        cloned_sig._unique_together_applied = self._unique_together_applied

        for field_sig in self.field_sigs:
            cloned_sig.add_field_sig(field_sig.clone())

        for constraint_sig in self.constraint_sigs:
            cloned_sig.add_constraint_sig(constraint_sig.clone())

        for index_sig in self.index_sigs:
            cloned_sig.add_index_sig(index_sig.clone())

        return cloned_sig

    def serialize(self, sig_version=LATEST_SIGNATURE_VERSION):
        """Serialize model data to a signature dictionary.

        Args:
            sig_version (int, optional):
                The signature version to serialize as. This always defaults
                to the latest.

        Returns:
            dict:
            The serialized data.

        Raises:
            django_evolution.errors.InvalidSignatureVersion:
                The signature version provided isn't supported.
        """
        validate_sig_version(sig_version)

        return {
            'meta': {
                'constraints': [
                    constraint_sig.serialize(sig_version)
                    for constraint_sig in self.constraint_sigs
                ],
                'db_table': self.table_name,
                'db_table_comment': self.db_table_comment,
                'db_tablespace': self.db_tablespace,
                'index_together': deepcopy(self.index_together),
                'indexes': [
                    index_sig.serialize(sig_version)
                    for index_sig in self.index_sigs
                ],
                'pk_column': self.pk_column,
                'unique_together': deepcopy(self.unique_together),
                '__unique_together_applied': self._unique_together_applied,
            },
            'fields': OrderedDict(
                (field_name, field_sig.serialize(sig_version))
                for field_name, field_sig in six.iteritems(self._field_sigs)
            ),
        }

    def __eq__(self, other):
        """Return whether two model signatures are equal.

        Args:
            other (ModelSignature):
                The other model signature.

        Returns:
            bool:
            ``True`` if the model signatures are equal. ``False`` if they
            are not.
        """
        return (other is not None and
                self.table_name == other.table_name and
                self.db_table_comment == other.db_table_comment and
                self.db_tablespace == other.db_tablespace and
                set(self.constraint_sigs) == set(other.constraint_sigs) and
                set(self.index_sigs) == set(other.index_sigs) and
                set(self.index_together) == set(other.index_together) and
                self.model_name == other.model_name and
                self.pk_column == other.pk_column and
                dict.__eq__(self._field_sigs, other._field_sigs) and
                not self.has_unique_together_changed(other))

    def __repr__(self):
        """Return a string representation of the signature.

        Returns:
            unicode:
            A string representation of the signature.
        """
        return '<ModelSignature(model_name=%r)>' % self.model_name

    def _normalize_together(self, together):
        """Normalize a <field>_together value.

        This is intended to normalize ``index_together`` and
        ``unique_together`` values so that they're reliably stored in a
        consistent format.

        Args:
            together (object):
                The value to normalize.

        Returns:
            list of tuple:
            The normalized value.
        """
        if not together:
            return []

        if not isinstance(together[0], (tuple, list)):
            together = (together,)

        return [
            tuple(
                six.text_type(_value)
                for _value in _item
            )
            for _item in together
        ]


class ConstraintSignature(BaseSignature):
    """Signature information for a explicit constraint.

    These indexes were introduced in Django 1.11. They correspond to entries
    in the :py:attr:`model._meta.indexes <django.db.models.Options.indexes`
    attribute.

    Constraint signatures store information on a constraint on model,
    including the constraint name, type, and any attribute values needed for
    constructing the constraint.
    """

    @classmethod
    def from_constraint(cls, constraint):
        """Create a constraint signature from a field.

        Args:
            constraint (django.db.models.BaseConstraint):
                The constraint to create a signature from.

        Returns:
            ConstraintSignature:
            The signature based on the constraint.
        """
        attrs = constraint.deconstruct()[2]
        del attrs['name']

        return cls(name=constraint.name,
                   constraint_type=type(constraint),
                   attrs=attrs)

    @classmethod
    def deserialize(cls, constraint_sig_dict, sig_version,
                    database=DEFAULT_DB_ALIAS):
        """Deserialize a serialized constraint signature.

        Args:
            constraint_sig_dict (dict):
                The dictionary containing constraint signature data.

            sig_version (int):
                The version of the serialized signature data.

            database (unicode, optional):
                The name of the database.

        Returns:
            ConstraintSignature:
            The resulting signature instance.

        Raises:
            django_evolution.errors.InvalidSignatureVersion:
                The signature version provided isn't supported.
        """
        validate_sig_version(sig_version)

        type_module, type_name = constraint_sig_dict['type'].rsplit('.', 1)

        try:
            constraint_type = getattr(import_module(type_module), type_name)
        except (AttributeError, ImportError):
            raise ImportError('Unable to locate constraint type %s'
                              % '%s.%s' % (type_module, type_name))

        attrs = deserialize_from_signature(constraint_sig_dict['attrs'])

        return cls(name=constraint_sig_dict['name'],
                   constraint_type=constraint_type,
                   attrs=attrs)

    @classmethod
    def _deserialize_attr_value(cls, sig_value):
        """Return an attribute value from serialized data.

        This will take care to re-construct any deconstructed data that's
        stored in the signature for arguments passed to the constraint class.

        Args:
            sig_value (object):
                The value in the signature to deserialize.

        Returns:
            object:
            The deserialized value.
        """
        if (isinstance(sig_value, dict) and
            sig_value.get('_deconstructed') is True):
            attr_cls_path = sig_value['type']
            attr_cls_module, attr_cls_name = attr_cls_path.rsplit('.', 1)

            try:
                attr_cls = getattr(import_module(attr_cls_module),
                                   attr_cls_name)
            except (AttributeError, ImportError):
                raise ImportError('Unable to locate constraint attribute '
                                  'value type %s'
                                  % attr_cls_path)

            args = tuple(
                cls._deserialize_attr_value(arg_value)
                for arg_value in sig_value['args']
            )

            kwargs = {
                key: cls._deserialize_attr_value(arg_value)
                for key, arg_value in six.iteritems(sig_value['kwargs'])
            }

            # Let any exception bubble up.
            value = attr_cls(*args, **kwargs)
        else:
            value = sig_value

        return value

    def __init__(self, name, constraint_type, attrs=None):
        """Initialize the signature.

        Args:
            name (unicode):
                The name of the constraint.

            constraint_type (cls):
                The class for the constraint. This would be a subclass of
                :py:class:`django.db.models.BaseConstraint`.

            attrs (dict, optional):
                Attributes to pass when constructing the constraint.
        """
        self.name = name
        self.type = constraint_type
        self.attrs = attrs

    def clone(self):
        """Clone the signature.

        Returns:
            ConstraintSignature:
            The cloned signature.
        """
        return ConstraintSignature(name=self.name,
                                   constraint_type=self.type,
                                   attrs=deepcopy(self.attrs))

    def serialize(self, sig_version=LATEST_SIGNATURE_VERSION):
        """Serialize constraint data to a signature dictionary.

        Args:
            sig_version (int, optional):
                The signature version to serialize as. This always defaults
                to the latest.

        Returns:
            dict:
            The serialized data.

        Raises:
            django_evolution.errors.InvalidSignatureVersion:
                The signature version provided isn't supported.
        """
        validate_sig_version(sig_version)

        type_module = self.type.__module__

        if type_module.startswith('django.db.models.constraints'):
            type_module = 'django.db.models'

        attrs = {}

        for key, value in six.iteritems(self.attrs):
            if hasattr(value, 'deconstruct'):
                attr_type_path, attr_args, attr_kwargs = value.deconstruct()

                value = {
                    'type': attr_type_path,
                    'args': attr_args,
                    'kwargs': attr_kwargs,
                    '_deconstructed': True,
                }

            attrs[key] = value

        return {
            'name': self.name,
            'type': '%s.%s' % (type_module, self.type.__name__),
            'attrs': serialize_to_signature(self.attrs),
        }

    def __eq__(self, other):
        """Return whether two constraint signatures are equal.

        Args:
            other (ConstraintSignature):
                The other constraint signature.

        Returns:
            bool:
            ``True`` if the constraint signatures are equal. ``False`` if they
            are not.
        """
        return (other is not None and
                self.name == other.name and
                self.type is other.type and
                (_get_stored_form(self.attrs) ==
                 _get_stored_form(other.attrs)))

    def __hash__(self):
        """Return a hash of the signature.

        This is required for comparison within a :py:class:`set`.

        Returns:
            int:
            The hash of the signature.
        """
        # This must only be based on state for which equal signatures are
        # guaranteed to match. The attributes are compared without regard
        # to key order, so they can't be part of the hash.
        return hash((self.name, self.type))

    def __repr__(self):
        """Return a string representation of the signature.

        Returns:
            unicode:
            A string representation of the signature.
        """
        return ('<ConstraintSignature(name=%r, type=%r, attrs=%r)>'
                % (self.name, self.type, self.attrs))

    def _serialize_attr_value(self, value):
        """Return a serialized version of a constraint attribute value.

        If the value has a ``deconstruct`` method, then this will call it
        and provide a serialized form of the results, allowing the object
        to be re-constructed properly when the signature is deserialized.

        Args:
            value (object):
                The value to serialize.

        Returns:
            object:
            The serialized value.
        """
        if hasattr(value, 'deconstruct'):
            assert callable(value.deconstruct)

            attr_type_path, attr_args, attr_kwargs = value.deconstruct()

            value = {
                'type': attr_type_path,
                'args': [
                    self._deconstruct_attr_value(arg_value)
                    for arg_value in attr_args
                ],
                'kwargs': {
                    key: self._deconstruct_attr_value(arg_value)
                    for key, arg_value in attr_kwargs
                },
                '_deconstructed': True,
            }

        return value


class IndexSignature(BaseSignature):
    """Signature information for an explicit index.

    These indexes were introduced in Django 1.11. They correspond to entries
    in the :py:attr:`model._meta.indexes <django.db.models.Options.indexes`
    attribute.

    Version Changed:
        2.2:
        Added a new :py:attr:`attrs` attribute for storing:

        * ``db_tablespace`` from Django 2.0+
        * ``condition`` from Django 2.2+
        * ``include`` and ``opclasses`` from Django 3.2+

        Added a new :py:attr:`expressions` attribute for Django 3.2+.
    """

    @classmethod
    def from_index(cls, index):
        """Create an index signature from an index.

        Args:
            index (django.db.models.Index):
                The index to create the signature from.

        Returns:
            IndexSignature:
            The signature based on the index.
        """
        path, expressions, attrs = index.deconstruct()
        attrs.pop('name', None)
        attrs.pop('fields', None)

        return cls(attrs=attrs,
                   expressions=deepcopy(expressions or None),
                   fields=deepcopy(index.fields or None),
                   name=index.name or None)

    @classmethod
    def deserialize(cls, index_sig_dict, sig_version,
                    database=DEFAULT_DB_ALIAS):
        """Deserialize a serialized index signature.

        Args:
            index_sig_dict (dict):
                The dictionary containing index signature data.

            sig_version (int):
                The version of the serialized signature data.

            database (unicode, optional):
                The name of the database.

        Returns:
            IndexSignature:
            The resulting signature instance.

        Raises:
            django_evolution.errors.InvalidSignatureVersion:
                The signature version provided isn't supported.
        """
        validate_sig_version(sig_version)

        name = deserialize_from_signature(index_sig_dict.get('name'))
        fields = deserialize_from_signature(index_sig_dict.get('fields'))
        expressions = deserialize_from_signature(
            index_sig_dict.get('expressions', []))
        attrs = deserialize_from_signature(index_sig_dict.get('attrs', {}))

        return cls(name=name,
                   fields=fields,
                   expressions=expressions or None,
                   attrs=attrs or None)

    def __init__(self, fields, name=None, expressions=None, attrs=None):
        """Initialize the signature.

        Args:
            fields (list of unicode):
                The list of field names the index is comprised of.

            name (unicode, optional):
                The optional name of the index.

            expressions (list, optional):
                A list of expressions for the index.

            attrs (dict, optional):
                Additional attributes to pass when constructing the index.
        """
        self.expressions = expressions
        self.fields = fields
        self.name = name

        norm_attrs = {}

        if attrs:
            for key, value in six.iteritems(attrs):
                if isinstance(value, tuple):
                    value = list(value)

                norm_attrs[key] = value

        self.attrs = norm_attrs

    def clone(self):
        """Clone the signature.

        Returns:
            IndexSignature:
            The cloned signature.
        """
        return IndexSignature(attrs=deepcopy(self.attrs),
                              expressions=deepcopy(self.expressions),
                              fields=deepcopy(self.fields),
                              name=self.name)

    def serialize(self, sig_version=LATEST_SIGNATURE_VERSION):
        """Serialize index data to a signature dictionary.

        Args:
            sig_version (int, optional):
                The signature version to serialize as. This always defaults
                to the latest.

        Returns:
            dict:
            The serialized data.

        Raises:
            django_evolution.errors.InvalidSignatureVersion:
                The signature version provided isn't supported.
        """
        validate_sig_version(sig_version)

        index_sig_dict = {}

        if self.fields:
            index_sig_dict['fields'] = serialize_to_signature(self.fields)

        if self.name:
            index_sig_dict['name'] = self.name

        if sig_version == 2:
            if self.attrs:
                index_sig_dict['attrs'] = serialize_to_signature(self.attrs)

            if self.expressions:
                index_sig_dict['expressions'] = \
                    serialize_to_signature(self.expressions)

        return index_sig_dict

    def __eq__(self, other):
        """Return whether two index signatures are equal.

        Args:
            other (IndexSignature):
                The other index signature.

        Returns:
            bool:
            ``True`` if the index signatures are equal. ``False`` if they
            are not.
        """
        return (other is not None and
                ((not self.name and not other.name) or
                 self.name == other.name) and
                ((not self.expressions and not other.expressions) or
                 (_get_stored_form(self.expressions) ==
                  _get_stored_form(other.expressions))) and
                (_get_stored_form(self.fields) ==
                 _get_stored_form(other.fields)) and
                (_get_stored_form(self.attrs or {}) ==
                 _get_stored_form(other.attrs or {})))

    def __hash__(self):
        """Return a hash of the signature.

        This is required for comparison within a :py:class:`set`.

        Returns:
            int:
            The hash of the signature.
        """
        # This must only be based on state for which equal signatures are
        # guaranteed to match. Empty names and expressions are considered
        # equal, and attributes are compared without regard to key order,
        # so those can't be part of the hash.
        return hash(tuple(self.fields or ()))

    def __repr__(self):
        """Return a string representation of the signature.

        Returns:
            unicode:
            A string representation of the signature.
        """
        return (
            '<IndexSignature(name=%r, fields=%r, expressions=%r, attrs=%r)>'
            % (self.name, self.fields, self.expressions, self.attrs)
        )


class FieldSignature(BaseSignature):
    """Signature information for a field.

    Field signatures store information on a field on model, including the
    field name, type, and any attribute values needed for migrating the
    schema.
    """

    _ATTRIBUTE_DEFAULTS = {
        '*': {
            'primary_key': False,
            'max_length': None,
            'unique': False,
            'null': False,
            'db_index': False,
            'db_column': None,
            'db_tablespace': global_settings.DEFAULT_TABLESPACE,
        },
        models.DecimalField: {
            'max_digits': None,
            'decimal_places': None,
        },
        models.ForeignKey: {
            'db_index': True,
        },
        models.ManyToManyField: {
            'db_table': None,
        },
        models.OneToOneField: {
            'db_index': True,
        },
    }

    _ATTRIBUTE_ALIASES = {
        # r7790 modified the unique attribute of the meta model to be
        # a property that combined an underlying _unique attribute with
        # the primary key attribute. We need the underlying property,
        # but we don't want to affect old signatures (plus the
        # underscore is ugly :-).
        'unique': '_unique',

        # Django 1.9 moved from 'rel' to 'remote_field' for relations, but
        # for compatibility reasons we want to retain 'rel' in our signatures.
        'rel': 'remote_field',
    }

    @classmethod
    def from_field(cls, field):
        """Create a field signature from a field.

        Args:
            field (django.db.models.Field):
                The field to create a signature from.

        Returns:
            FieldSignature:
            The signature based on the field.
        """
        field_type = type(field)
        field_attrs = {}

        defaults = cls._get_defaults_for_field_type(field_type)

        for attr, default in six.iteritems(defaults):
            alias = cls._ATTRIBUTE_ALIASES.get(attr)

            if alias and hasattr(field, alias):
                value = getattr(field, alias)
            elif hasattr(field, attr):
                value = getattr(field, attr)
            else:
                continue

            if value != default:
                field_attrs[attr] = value

        remote_field = get_remote_field(field)

        if remote_field:
            remote_field_meta = get_remote_field_model(remote_field)._meta

            related_model = '%s.%s' % (
                remote_field_meta.app_label,
                remote_field_meta.object_name,
            )
        else:
            related_model = None

        return cls(field_name=field.name,
                   field_type=field_type,
                   field_attrs=field_attrs,
                   related_model=related_model)

    @classmethod
    def deserialize(cls, field_name, field_sig_dict, sig_version,
                    database=DEFAULT_DB_ALIAS):
        """Deserialize a serialized field signature.

        Args:
            field_name (unicode):
                The name of the field.

            field_sig_dict (dict):
                The dictionary containing field signature data.

            sig_version (int):
                The version of the serialized signature data.

            database (unicode, optional):
                The name of the database.

        Returns:
            FieldSignature:
            The resulting signature instance.

        Raises:
            django_evolution.errors.InvalidSignatureVersion:
                The signature version provided isn't supported.
        """
        validate_sig_version(sig_version)

        if sig_version == 2:
            field_sig_attrs = field_sig_dict.get('attrs', {})

            field_type = field_sig_dict['type']
            renamed_types = django_evolution_settings.RENAMED_FIELD_TYPES

            if field_type in renamed_types:
                field_type = renamed_types[field_type]

            # Load the class for the referenced field type.
            field_type_module, field_type_name = field_type.rsplit('.', 1)

            # If we have a field path in the signature that lives in
            # django.db.models.fields, update it to look in django.db.models
            # instead. This is for compatibility across all Django versions.
            if field_type_module.startswith('django.db.models.fields'):
                field_type_module = 'django.db.models'

            try:
                field_type = getattr(import_module(field_type_module),
                                     field_type_name)
            except (AttributeError, ImportError):
                raise ImportError('Unable to locate field type %s'
                                  % '%s.%s' % (field_type_module,
                                               field_type_name))
        elif sig_version == 1:
            field_sig_attrs = field_sig_dict
            field_type = field_sig_dict['field_type']

        field_attrs = {}

        for attr in cls._iter_attrs_for_field_type(field_type):
            if hasattr(cls, attr):
                # This is stored on the field signature class itself, so
                # it's not attribute data we want to load.
                continue

            alias = cls._ATTRIBUTE_ALIASES.get(attr)

            if alias and alias in field_sig_attrs:
                value = field_sig_attrs[alias]
            elif attr in field_sig_attrs:
                value = field_sig_attrs[attr]
            else:
                # The signature didn't contain a value for this attribute.
                continue

            field_attrs[attr] = value

        return cls(field_name=field_name,
                   field_type=field_type,
                   field_attrs=field_attrs,
                   related_model=field_sig_dict.get('related_model'))

    @classmethod
    def _iter_attrs_for_field_type(cls, field_type):
        """Iterate through attribute names for a field type.

        The attributes returned are those that impact the schema for a field's
        column.

        Args:
            field_type (type):
                The class for the field. This would be a subclass of
                :py:class:`django.db.models.Field`.

        Yield:
            unicode:
            An attribute for a field type.
        """
        return six.iterkeys(cls._get_defaults_for_field_type(field_type))

    @classmethod
    def _get_defaults_for_field_type(cls, field_type):
        """Return attribute names and defaults for a field type.

        The attributes returned are those that impact the schema for a field's
        column.

        Args:
            field_type (type):
                The class for the field. This would be a subclass of
                :py:class:`django.db.models.Field`.

        Returns:
            dict:
            The dictionary of attribute names and values.
        """
        defaults = cls._ATTRIBUTE_DEFAULTS['*'].copy()
        defaults.update(cls._ATTRIBUTE_DEFAULTS.get(field_type, {}))

        return defaults

    def __init__(self, field_name, field_type, field_attrs=None,
                 related_model=None):
        """Initialize the signature.

        Args:
            field_name (unicode):
                The name of the field.

            field_type (cls):
                The class for the field. This would be a subclass of
                :py:class:`django.db.models.Field`.

            field_attrs (dict, optional):
                Attributes to set on the field.

            related_model (unicode, optional):
                The full path to a related model.
        """
        self.field_name = field_name
        self.field_type = field_type
        self.field_attrs = field_attrs or OrderedDict()
        self.related_model = related_model

    def get_attr_value(self, attr_name, use_default=True):
        """Return the value for an attribute.

        By default, this will return the default value for the attribute if
        it's not explicitly set.

        Args:
            attr_name (unicode):
                The name of the attribute.

            use_default (bool, optional):
                Whether to return the default value for the attribute if it's
                not explicitly set.

        Returns:
            object:
            The value for the attribute.
        """
        try:
            return self.field_attrs[attr_name]
        except KeyError:
            if use_default:
                return self.get_attr_default(attr_name)

            return None

    def get_attr_default(self, attr_name):
        """Return the default value for an attribute.

        Args:
            attr_name (unicode):
                The attribute name.

        Returns:
            object:
            The default value for the attribute, or ``None``.
        """
        for defaults in (self._ATTRIBUTE_DEFAULTS.get(self.field_type, {}),
                         self._ATTRIBUTE_DEFAULTS['*']):
            try:
                return defaults[attr_name]
            except KeyError:
                continue

        return None

    def is_attr_value_default(self, attr_name):
        """Return whether an attribute is set to its default value.

        Args:
            attr_name (unicode):
                The attribute name.

        Returns:
            bool:
            ``True`` if the attribute's value is set to its default value.
            ``False`` if it has a custom value.
        """
        try:
            attr_value = self.field_attrs[attr_name]
        except KeyError:
            return True

        return attr_value == self.get_attr_default(attr_name)

    def diff(self, old_field_sig):
        """Diff against an older field signature.

        This will return a list of field names that have changed between
        this field signature and an older one.

        Args:
            old_field_sig (FieldSignature):
                The old field signature to diff against.

        Returns:
            list:
            The list of field names.

        Raises:
            TypeError:
                The old signature provided was not a
                :py:class:`FieldSignature`.
        """
        if not isinstance(old_field_sig, FieldSignature):
            raise TypeError('Must provide a FieldSignature to diff against, '
                            'not a %s.' % type(old_field_sig))

        changed_attrs = [
            attr
            for attr in (set(old_field_sig.field_attrs) |
                         set(self.field_attrs))
            if self.get_attr_value(attr) != old_field_sig.get_attr_value(attr)
        ]

        # See if the field type has changed.
        old_field_type = old_field_sig.field_type
        new_field_type = self.field_type

        if old_field_type is not new_field_type:
            try:
                old_field = old_field_type(**old_field_sig.field_attrs)
                new_field = new_field_type(**self.field_attrs)

                field_type_changed = (old_field.get_internal_type() !=
                                      new_field.get_internal_type())
            except TypeError:
                # We can't instantiate those, so assume the field
                # type has indeed changed.
                field_type_changed = True

            if field_type_changed:
                changed_attrs.append('field_type')

        # FieldSignature.related_model is not a field attribute,
        # but we do need to track its changes.
        if old_field_sig.related_model != self.related_model:
            changed_attrs.append('related_model')

        return sorted(changed_attrs)

    def clone(self):
        """Clone the signature.

        Returns:
            FieldSignature:
            The cloned signature.
        """
        return FieldSignature(field_name=self.field_name,
                              field_type=self.field_type,
                              field_attrs=deepcopy(self.field_attrs),
                              related_model=self.related_model)

    def serialize(self, sig_version=LATEST_SIGNATURE_VERSION):
        """Serialize field data to a signature dictionary.

        Args:
            sig_version (int, optional):
                The signature version to serialize as. This always defaults
                to the latest.

        Returns:
            dict:
            The serialized data.

        Raises:
            django_evolution.errors.InvalidSignatureVersion:
                The signature version provided isn't supported.
        """
        validate_sig_version(sig_version)

        field_sig_dict = OrderedDict()

        if sig_version == 2:
            field_module = self.field_type.__module__

            # If the field lives in django.db.models.fields, update it to
            # use django.db.models instead. This is for compatibility across
            # all Django versions.
            if field_module.startswith('django.db.models.fields'):
                field_module = 'django.db.models'

            field_sig_dict['type'] = '%s.%s' % (field_module,
                                                self.field_type.__name__)

            if self.field_attrs:
                field_sig_dict['attrs'] = deepcopy(self.field_attrs)
        elif sig_version == 1:
            field_sig_dict['field_type'] = self.field_type
            field_sig_dict.update(self.field_attrs)

        if self.related_model:
            field_sig_dict['related_model'] = self.related_model

        return field_sig_dict

    def __eq__(self, other):
        """Return whether two field signatures are equal.

        Args:
            other (FieldSignature):
                The other field signature.

        Returns:
            bool:
            ``True`` if the field signatures are equal. ``False`` if they
            are not.
        """
        return (other is not None and
                self.field_name == other.field_name and
                self.field_type is other.field_type and
                dict.__eq__(self.field_attrs, other.field_attrs) and
                self.related_model == other.related_model)

    def __repr__(self):
        """Return a string representation of the signature.

        Returns:
            unicode:
            A string representation of the signature.
        """
        return ('<FieldSignature(field_name=%r, field_type=%r,'
                ' field_attrs=%r, related_model=%r)>'
                % (self.field_name, self.field_type, self.field_attrs,
                   self.related_model))


def _get_stored_form(value):
    """Return the form a value takes once stored in a signature.

    Signatures are stored as JSON, which can't tell a tuple from a list.
    A signature loaded from the database therefore holds lists (directly, or
    nested in values such as the lookups of a ``Q``) where a signature built
    from a model may hold tuples. Values are compared by the form in which
    they're stored, so that only their contents matter.

    Args:
        value (object):
            The value to normalize.

    Returns:
        object:
        The serialized value, with all tuples converted to lists.
    """
    def _normalize(value):
        if isinstance(value, (list, tuple)):
            return [
                _normalize(_item)
                for _item in value
            ]
        elif isinstance(value, dict):
            return dict(
                (_key, _normalize(_value))
                for _key, _value in six.iteritems(value)
            )

        return value

    return _normalize(serialize_to_signature(value))


def validate_sig_version(sig_version):
    """Validate that a signature version is supported.

    Args:
        sig_version (int):
            The version of the signature to validate.

    Raises:
        django_evolution.errors.InvalidSignatureVersion:
            The signature version provided isn't supported.
    """
    assert isinstance(sig_version, int)

    if not (0 < sig_version <= LATEST_SIGNATURE_VERSION):
        raise InvalidSignatureVersion(sig_version)
