"""Standard exceptions for Django Evolution."""

from __future__ import unicode_literals

from django_evolution.compat import six


class EvolutionException(Exception):
    """Base class for a Django Evolution exception."""

    def __init__(self, msg):
        self.msg = msg

    def __str__(self):
        return str(self.msg)


class EvolutionExecutionError(EvolutionException):
    """Execution of an evolution failed.

    Details about the failure, including the app that failed and the last
    SQL statement executed, are available in the exception as attributes.

    Attributes:
        app_label (unicode):
            The label of the app that failed evolution. This may be ``None``.

        detailed_error (unicode):
            Detailed error information from the failure that triggered this
            exception. This might be another exception's error message, or
            it may be ``None``.

        last_sql_statement (unicode):
            The last SQL statement that was executed. This may be ``None``.
    """

    def __init__(self, msg, app_label=None, detailed_error=None,
                 last_sql_statement=None):
        """Initialize the error.

        Args:
            msg (unicode):
                The error message.

            app_label (unicode, optional):
                The label of the app that failed evolution.

            detailed_error (unicode, optional):
                Detailed error information from the failure that triggered this
                exception. This might be another exception's error message.

            last_sql_statement (unicode, optional):
                The last SQL statement that was executed.
        """
        super(EvolutionExecutionError, self).__init__(msg)

        self.app_label = app_label
        self.detailed_error = detailed_error
        self.last_sql_statement = last_sql_statement


class CannotSimulate(EvolutionException):
    """A mutation cannot be simulated."""


class SimulationFailure(EvolutionException):
    """A mutation simulation has failed."""


class EvolutionNotImplementedError(EvolutionException, NotImplementedError):
    """An operation is not supported by the mutation or database backend."""


class DatabaseStateError(EvolutionException):
    """There was an issue working with database state."""


class MissingSignatureError(EvolutionException):
    """A requested signature could not be found."""


class QueueEvolverTaskError(EvolutionException):
    """Error queueing an evolver task."""


class EvolutionTaskAlreadyQueuedError(QueueEvolverTaskError):
    """The task has already been queued on the evolver."""


class EvolutionBaselineMissingError(EvolutionException):
    """An evolution baseline is missing."""


class InvalidSignatureVersion(EvolutionException):
    """An invalid signature version was provided or found."""

    def __init__(self, version):
        """Initialize the exception.

        Args:
            version (int):
                The invalid signature version.
        """
        super(InvalidSignatureVersion, self).__init__(
            '%s is not a known signature version' % version)


class BaseMigrationError(EvolutionException):
    """Base class for migration errors."""


class MigrationHistoryError(BaseMigrationError):
    """An error with the stored history of migrations.

    This is raised if any applied migrations have unapplied dependencies.
    """


class MigrationConflictsError(BaseMigrationError):
    """There are conflicts between migrations."""

    def __init__(self, conflicts):
        """Initialize the error.

        Args:
            conflicts (dict):
                A dictionary of conflicts, provided by the migrations system.
        """
        # Note that we're using the same error message that Django's migrate
        # command uses.
        super(MigrationConflictsError, self).__init__(
            "Conflicting migrations detected; multiple leaf nodes "
            "in the migration graph: (%s).\n"
            "To fix them run 'python manage.py makemigrations "
            "--merge'"
            % '; '.join(
                '%s in %s' % (', '.join(sorted(conflict_names)), app_label)
                for app_label, conflict_names in six.iteritems(conflicts)
            ))


class DjangoEvolutionSupportError(EvolutionException):
    """A feature isn't supported by the current version of Django."""
