"""Placeholder objects for hinted evolutions.

Version Added:
    2.2
"""

from __future__ import unicode_literals

from django_evolution.compat.translation import gettext as _
from django_evolution.errors import EvolutionException


class BasePlaceholder(object):
    """A placeholder object for use in generating hints.

    Placeholder objects provide stand-ins for values that must be hand-added
    to the evolution file.

    Version Added:
        2.2
    """

    #: The text used in the placeholder.
    #:
    #: Type:
    #:     unicode
    placeholder_text = None

    def __init__(self, app_label=None, model_name=None, field_name=None):
        """Initialize the object.

        Args:
            app_label (unicode, optional):
                The label of the application owning the model.

            model_name (unicode, optional):
                The name of the model owning the field.

            field_name (unicode, optional):
                The name of the field to return an initial value for.
        """
        self.app_label = app_label
        self.model_name = model_name
        self.field_name = field_name

    def __repr__(self):
        """Return a string representation of the object.

        This is used when outputting the value in a hinted evolution.

        Returns:
            unicode:
            The placeholder text.
        """
        return self.placeholder_text

    def __call__(self):
        """Handle calls on this object.

        This will raise an exception stating that the evolution cannot be
        performed.

        Raises:
            django_evolution.errors.EvolutionException:
                An error stating that an explicit initial value must be
                provided in place of this object.
        """
        raise EvolutionException(
            _('Cannot use hinted evolution: Mutation requires a '
              'user-specified value.'))


class NullFieldInitialCallback(BasePlaceholder):
    """A placeholder for an initial value for a field.

    This is used in place of an initial value in mutations for fields that
    don't allow NULL values and don't have an explicit initial value set.
    It will show up in hinted evolutions as ``<<USER VALUE REQUIRED>>`` and
    will fail to evolve.
    """

    placeholder_text = '<<USER VALUE REQUIRED>>'

    def __call__(self):
        """Handle calls on this object.

        This will raise an exception stating that the evolution cannot be
        performed.

        Raises:
            django_evolution.errors.EvolutionException:
                An error stating that an explicit initial value must be
                provided in place of this object.
        """
        raise EvolutionException(
            _('Cannot use hinted evolution: AddField or ChangeField mutation '
              'for "%s.%s" in "%s" requires user-specified initial value.')
            % (self.model_name, self.field_name, self.app_label))
