"""Constants indicating available Django features."""

from __future__ import unicode_literals

from django.db.models import F, Q
from django.db.models.options import Options

try:
    # Django >= 1.7
    from django import apps
except ImportError:
    # Django < 1.7
    apps = None

try:
    # Django >= 1.11
    from django.db.models import Index
    _test_index = Index(fields=['test'])
except ImportError:
    Index = None
    _test_index = None


_options = Options({})


#: Index names changed in Django 1.5, with the introduction of index_together.
supports_index_together = hasattr(_options, 'index_together')


#: Whether new-style Index classes are available.
#:
#: Django 1.11 introduced formal support for defining explicit indexes not
#: bound to a field definition or as part of
#: ``index_together``/``unique_together``.
#:
#: Type:
#:     bool
supports_indexes = hasattr(_options, 'indexes')


#: Whether Q() objects can be directly compared.
#:
#: Django 2.0 introduced this support.
#:
#: Type:
#:     bool
supports_q_comparison = hasattr(Q, '__eq__')

#: Whether F() objects can be directly compared.
#:
#: Django 2.0 introduced this support.
#:
#: Type:
#:     bool
supports_f_comparison = hasattr(F, '__eq__')


#: Whether new-style Constraint classes are available.
#:
#: Django 2.2 introduced formal support for defining explicit constraints not
#: bound to a field definition.
supports_constraints = hasattr(_options, 'constraints')


#: Whether database table comments are available.
#:
#: Django 4.2 introduced formal support for setting comments attached to
#: tables.
#:
#: Support may vary by database backend.
#:
#: Version Added:
#:     2.3
#:
#: Type:
#:     bool
supports_db_table_comments = hasattr(_options, 'db_table_comment')


#: Whether built-in support for Django Migrations is present.
#:
#: This is available in Django 1.7+.
supports_migrations = apps is not None


def supports_index_feature(attr_name):
    """Return whether Index supports a specific attribute.

    Args:
        attr_name (unicode):
            The name of the attribute.

    Returns:
        bool:
        ``True`` if the attribute is supported on this version of Django.
        ``False`` if it is not.
    """
    return supports_indexes and hasattr(_test_index, attr_name)
