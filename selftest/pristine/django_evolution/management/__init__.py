from __future__ import print_function, unicode_literals

import logging

import django
from django.conf import settings
from django.db.models import signals
from django.db.utils import DEFAULT_DB_ALIAS
from django.dispatch import receiver

from django_evolution.compat.apps import get_apps, get_app
from django_evolution.conf import django_evolution_settings
from django_evolution.evolve import Evolver
from django_evolution.models import Evolution, Version
from django_evolution.signals import evolved, evolving, evolving_failed
from django_evolution.utils.apps import get_app_label
from django_evolution.utils.evolutions import get_evolution_sequence


_django_evolution_app = None


_evolve_lock = 0


@receiver(evolving)
def _on_evolving(**kwargs):
    """Handler for when an Evolver begins evolving.

    This will increment a lock, used to determine whether to react to any
    Django post-migrate/syncdb signals.

    Args:
        **kwargs (dict):
            Keyword arguments passed to the signal.
    """
    global _evolve_lock

    _evolve_lock += 1


@receiver([evolved, evolving_failed])
def _on_evolving_done(**kwargs):
    """Handler for when an Evolver finishes evolving.

    This will decrement a lock, used to determine whether to react to any
    Django post-migrate/syncdb signals.

    Args:
        **kwargs (dict):
            Keyword arguments passed to the signal.
    """
    global _evolve_lock

    _evolve_lock -= 1


def _on_app_models_updated(app, using=DEFAULT_DB_ALIAS, **kwargs):
    """Handler for when an app's models were updated.

    This is called in response to a syncdb or migrate operation for an app.
    The very first time this is called for Django Evolution's app, this will
    set up the current project version to contain the full database signature,
    and to populate the list of evolutions with all currently-registered ones.

    This is only done when we're not actively evolving the database. That
    means it will only be called if we're running unit tests or in reaction
    to some other process that emits the signals (such as the flush management
    command).

    Args:
        app (module):
            The app models module that was updated.

        using (str, optional):
            The database being updated.

        **kwargs (dict):
            Additional keyword arguments provided by the signal handler for
            the syncdb or migrate operation.
    """
    global _django_evolution_app

    if _django_evolution_app is None:
        _django_evolution_app = get_app('django_evolution')

    if (_evolve_lock > 0 or
        app is not _django_evolution_app or
        Version.objects.using(using).exists()):
        return

    evolver = Evolver(database_name=using)

    version = evolver.version
    version.signature = evolver.target_project_sig
    version.save(using=using)

    evolutions = []

    for app in get_apps():
        app_label = get_app_label(app)

        evolutions += [
            Evolution(app_label=app_label,
                      label=evolution_label,
                      version=version)
            for evolution_label in get_evolution_sequence(app)
        ]

    Evolution.objects.using(using).bulk_create(evolutions)


def _on_post_syncdb(app, **kwargs):
    """Handler to install baselines after syncdb has completed.

    This wraps :py:func:`_on_app_models_updated`.

    Args:
        app (module):
            The app whose models were migrated.

        **kwargs (dict):
            Keyword arguments passed to the signal handler.
    """
    _on_app_models_updated(app=app,
                           using=kwargs.get('db', DEFAULT_DB_ALIAS),
                           **kwargs)


def _on_post_migrate(app_config, **kwargs):
    """Handler to install baselines after app migration has completed.

    This wraps :py:func:`_on_app_models_updated`.

    Args:
        app_config (django.apps.AppConfig):
            The configuration for the app whose models were migrated.

        **kwargs (dict):
            Keyword arguments passed to the signal handler.
    """
    _on_app_models_updated(app=app_config.models_module, **kwargs)


if django_evolution_settings.ENABLED:
    if hasattr(signals, 'post_syncdb'):
        signals.post_syncdb.connect(_on_post_syncdb)
    elif hasattr(signals, 'post_migrate'):
        signals.post_migrate.connect(_on_post_migrate)
    else:
        logging.error('Django Evolution cannot automatically install '
                      'baselines or evolve on Django %s',
                      django.get_version())
