"""Management command for working with project signatures.

Version Added:
    2.3
"""

from __future__ import print_function, unicode_literals

import json
import textwrap

from django.core.management.base import CommandError

from django_evolution.compat.commands import BaseCommand
from django_evolution.compat.six.moves import input
from django_evolution.compat.translation import gettext as _
from django_evolution.models import Evolution, Version


class Command(BaseCommand):
    """List, show, or remove project signatures from the history.

    Version Added:
        2.3
    """

    help = _(
        "List, show, or remove project signatures from the history.\n"
        "\n"
        "This is an advanced command that should only be used if you know "
        "what you're doing, or are guided by support as part of a database "
        "repair."
    )

    def add_arguments(self, parser):
        """Add arguments to the command.

        Args:
            parser (object):
                The argument parser to add to.
        """
        # Ideally we'd use subcommands for the various actions, but we still
        # support versions of Django that use optparse, so we're a bit limited.
        parser.add_argument(
            '--show',
            action='store_true',
            dest='action_show',
            help=_('Show a project signature.'))
        parser.add_argument(
            '--delete',
            action='store_true',
            dest='action_delete',
            help=_('Delete a project signature. Requires --id.'))
        parser.add_argument(
            '--list',
            action='store_true',
            dest='action_list',
            help=_('List the registered project signatures.'))
        parser.add_argument(
            '--noinput',
            action='store_false',
            dest='interactive',
            default=True,
            help=_('Tells Django to NOT prompt the user for input of any '
                   'kind.'))

        parser.add_argument(
            '--id',
            type=int,
            default=None,
            help=_('The signature version ID to operate on.'))

    def handle(self, **options):
        """Run the management command.

        Args:
            options (dict):
                The parsed command line options.

        Raises:
            django.core.management.base.CommandError:
                Arguments were invalid or something went wrong. Details are
                in the message.
        """
        action_list = options['action_list']
        action_show = options['action_show']
        action_delete = options['action_delete']

        # Check if more than one action is specified.
        num_enabled_actions = sum(
            int(_action)
            for _action in (action_list, action_show, action_delete)
        )

        if num_enabled_actions > 1:
            raise CommandError('Only one action (--show, --delete, or --list) '
                               'can be specified.')

        if num_enabled_actions == 0:
            action_show = True

        interactive = options['interactive']

        if action_show:
            self._show_signature(version_id=options['id'])
        elif action_delete:
            self._delete_signature(version_id=options['id'],
                                   interactive=interactive)
        elif action_list:
            self._list_signatures()

    def _show_signature(self, version_id):
        """Output a project signature.

        Args:
            version_id (int):
                The ID of the signature version to show. If ``None``, the
                current version will be shown.

        Raises:
            django.core.management.base.CommandError:
                The project signature does not exist.
        """
        if version_id is None:
            version = Version.objects.current_version()
        else:
            try:
                version = Version.objects.get(pk=version_id)
            except Version.DoesNotExist:
                raise CommandError('Signature version ID "%s" does not exist.'
                                   % version_id)

        self.stdout.write(json.dumps(version.signature.serialize(),
                                     indent=2,
                                     sort_keys=True))

    def _delete_signature(self, version_id, interactive):
        """Delete a project signature from the database.

        This will prompt for confirmation before wiping.

        Args:
            version_id (int):
                The ID of the signature version to delete. If ``None``, the
                current version will be shown.

            interactive (bool):
                Whether this can prompt for confirmation before deleting.

        Raises:
            django.core.management.base.CommandError:
                The project signature does not exist.
        """
        if version_id is None:
            raise CommandError('--id must be specified.')

        try:
            version = Version.objects.get(pk=version_id)
        except Version.DoesNotExist:
            raise CommandError('Signature version ID "%s" does not exist.'
                               % version_id)

        if interactive:
            evolution_labels = [
                '%s.%s' % (_app_label, _label)
                for _app_label, _label in (
                    version.evolutions.values_list('app_label', 'label')
                )
            ]

            lines = [
                'WARNING: This will permanently delete the stored signature, '
                'which may break your database and prevent future upgrades. '
                'Unless you are developing with Django Evolution, or have '
                'been told to do this by the developer of the software you '
                'are trying to upgrade, DO NOT DO THIS!',
            ]

            if evolution_labels:
                lines += [
                    'This will also delete the following evolution records '
                    'from the database:',

                    '\n'.join(
                        '* %s' % _evolution_label
                        for _evolution_label in evolution_labels
                    ),
                ]

            lines += [
                'MAKE A BACKUP OF YOUR DATABASE BEFORE YOU CONTINUE!',

                'Are you sure you want to delete this signature?',

                'Type "yes" to continue, or "no" to cancel:',
            ]

            prompt = self._wrap_paragraphs('\n\n'.join(lines))

            confirmed = (input('%s ' % prompt).lower() == 'yes')
        else:
            confirmed = True

        if confirmed:
            version.delete()

            self.stdout.write(self.style.SUCCESS(
                _('Signature version ID %s deleted.')
                % version_id))

    def _list_signatures(self):
        """Display the list of all project signatures.

        This will show the project signature IDs, timestamps, and any
        evolutions that apply to the signature.
        """
        versions = (
            Version.objects
            .only('id', 'when')
            .values_list('id', 'when')
            .order_by('id')
        )

        versions_to_evolutions = {}
        evolutions_to_labels = {}

        for evolution in Evolution.objects.all():
            evolutions_to_labels[evolution.pk] = \
                '%s.%s' % (evolution.app_label, evolution.label)
            versions_to_evolutions.setdefault(evolution.version_id, []).append(
                evolution.pk)

        for pk, when in versions:
            evolution_ids = versions_to_evolutions.get(pk, [])

            if evolution_ids:
                evolution_labels = [
                    evolutions_to_labels[_evolution_id]
                    for _evolution_id in evolution_ids
                ]
            else:
                evolution_labels = ''

            leader = '% 4s - %s - ' % (pk,
                                       when.strftime('%Y-%m-%d %H:%M:%S.%f'))

            if evolution_labels:
                self.stdout.write('%s%s' % (leader, evolution_labels[0]))

                for evolution_label in evolution_labels[1:]:
                    self.stdout.write('%s%s' % (' ' * len(leader),
                                                evolution_label))
            else:
                self.stdout.write(leader)

    def _wrap_paragraphs(self, text):
        """Wrap a block of text into paragraphs.

        This will take paragraphs worth of text and wrap them to fit in a
        standard terminal width, helping provide more readable output.

        Args:
            text (unicode):
                The text to wrap.

        Returns:
            unicode:
            The wrapped text.
        """
        return '\n'.join(
            textwrap.fill(paragraph)
            for paragraph in text.splitlines()
        )
