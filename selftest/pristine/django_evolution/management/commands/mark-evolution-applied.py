"""Management command for marking evolutions as applied.

Version Added:
    2.3
"""

from __future__ import print_function, unicode_literals

from django.core.exceptions import ImproperlyConfigured
from django.core.management.base import CommandError

from django_evolution.compat.apps import get_app
from django_evolution.compat.commands import BaseCommand
from django_evolution.compat.six.moves import input
from django_evolution.compat.translation import gettext as _
from django_evolution.models import Evolution, Version
from django_evolution.utils.evolutions import get_evolution_sequence


class Command(BaseCommand):
    """Mark one or more evolutions as applied to a database.

    This is almost never a good idea to run, and should only be run if
    repairing a database schema.

    Version Added:
        2.3
    """

    help = _(
        "Marks one or more evolutions as applied in the database.\n"
        "\n"
        "This is an advanced command that should only be used if you know "
        "what you're doing, or are guided by support as part of a database "
        "repair."
    )

    def add_arguments(self, parser):
        """Add arguments to the command.

        Args:
            parser (object):
                The argument parser to add to.
        """
        parser.add_argument(
            'args',
            metavar='EVOLUTION_LABEL',
            nargs='*',
            help=_('One or more evolution labels to mark as applied. '
                   'This is required if --all isn\'t specified.'))
        parser.add_argument(
            '--noinput',
            action='store_false',
            dest='interactive',
            default=True,
            help=_('Tells Django to NOT prompt the user for input of any '
                   'kind.'))
        parser.add_argument(
            '--app-label',
            action='store',
            dest='app_label',
            help=_('The app label the evolution labels apply to.'))
        parser.add_argument(
            '--all',
            action='store_true',
            default=False,
            dest='apply_all',
            help=_('Marks all unapplied evolutions as applied. This should '
                   'only if you know what you are doing.'))

    def handle(self, *evolution_labels, **options):
        """Handle the command.

        This will validate the arguments and mark the evolutions as applied.

        Args:
            evolution_labels (list of unicode):
                The evolution labels to mark as applied.

            options (dict):
                Options parsed by the argument parser.

        Raises:
            django.core.management.base.CommandError:
                Arguments were invalid or something went wrong. Details are
                in the message.
        """
        apply_all = options['apply_all']

        if not evolution_labels and not apply_all:
            raise CommandError(
                _('One or more evolution labels must be provided.'))

        app_label = options['app_label']

        if not app_label:
            raise CommandError(_('--app-label must be specified.'))

        try:
            app = get_app(app_label)
        except ImproperlyConfigured:
            raise CommandError(_('"%s" is not a registered Django app.')
                               % app_label)

        sequence = set(get_evolution_sequence(app))

        # Check that each provided evolution label is known in the sequence.
        if apply_all:
            evolution_labels = sequence
        else:
            for evolution_label in evolution_labels:
                if evolution_label not in sequence:
                    raise CommandError(
                        _('"%(evolution_label)s" is not a known evolution in '
                          '"%(app_label)s".')
                        % {
                            'app_label': app_label,
                            'evolution_label': evolution_label,
                        })

        # Check whether any of these evolutions are already marked as applied.
        found_evolutions = (
            Evolution.objects
            .filter(app_label=app_label, label__in=evolution_labels)
            .values_list('label', flat=True)
        )

        if found_evolutions:
            raise CommandError(
                _('The following evolutions are already applied: %s')
                % ', '.join(sorted(found_evolutions))
            )

        if options['interactive']:
            confirm = input(_("""
You are marking %s evolution(s) as applied. This is usually a BAD IDEA,
as it may BREAK FUTURE UPGRADES. Only use this if you are repairing the
Django Evolution history under guidance from someone familiar with this
kind of repair.

Please BACK UP FIRST!

Are you sure you want to mark these evolutions as applied?

Type 'yes' to continue, or 'no' to cancel: """) % len(evolution_labels))
        else:
            confirm = 'yes'

        if confirm == 'yes':
            version = Version.objects.current_version()

            Evolution.objects.bulk_create(
                Evolution(version=version,
                          app_label=app_label,
                          label=evolution_label)
                for evolution_label in evolution_labels
            )

            self.stdout.write(self.style.SUCCESS(
                _('%s evolution(s) have been marked as applied.')
                % len(evolution_labels)))
