from __future__ import print_function, unicode_literals

from django.core.management.base import CommandError
from django.db.models import Q

from django_evolution.compat.commands import BaseCommand
from django_evolution.compat.six.moves import input
from django_evolution.compat.translation import gettext as _
from django_evolution.models import Evolution


class Command(BaseCommand):
    """Wipes an evolutions from the history.

    This is a very dangerous operation, and should only be done after a
    full database backup.
    """

    def add_arguments(self, parser):
        """Add arguments to the command.

        Args:
            parser (object):
                The argument parser to add to.
        """
        parser.add_argument(
            'args',
            metavar='EVOLUTION_LABEL',
            nargs='+',
            help=_('One or more evolution labels to wipe.'))
        parser.add_argument(
            '--noinput',
            action='store_false',
            dest='interactive',
            default=True,
            help='Tells Django to NOT prompt the user for input of any kind.')
        parser.add_argument(
            '--app-label',
            action='store',
            dest='app_label',
            help='The app label the evolution label applies to.')

    def handle(self, *evolution_labels, **options):
        if not evolution_labels:
            raise CommandError(
                'One or more evolution labels must be provided.')

        # Sanity-check each app to make sure it exists only once, and is
        # in the given app (if specified).
        to_wipe_ids = []
        app_label = options['app_label']

        for evolution_label in evolution_labels:
            q = Q(label=evolution_label)

            if app_label:
                q = q & Q(app_label=app_label)

            evolutions = list(Evolution.objects.filter(q).values('pk'))

            if len(evolutions) == 0:
                if app_label:
                    raise CommandError(
                        "Unable to find evolution '%s' for app label '%s'" %
                        (evolution_label, app_label))
                else:
                    raise CommandError(
                        "Unable to find evolution '%s'" % evolution_label)
            if len(evolutions) > 1:
                if app_label:
                    raise CommandError(
                        "Too many evolutions named '%s' for app label '%s'" %
                        (evolution_label, app_label))
                else:
                    raise CommandError(
                        "Too many evolutions named '%s'" % evolution_label)

            to_wipe_ids.append(evolutions[0]['pk'])

        if to_wipe_ids:
            if options['interactive']:
                confirm = input("""
You have requested to delete %s evolution(s). This may cause permanent
problems, and should only be done after a FULL BACKUP and under direct
guidance.

Are you sure you want to wipe these evolutions from the database?

Type 'yes' to continue, or 'no' to cancel: """ % len(to_wipe_ids))
            else:
                confirm = 'yes'

            if confirm == 'yes':
                Evolution.objects.filter(pk__in=to_wipe_ids).delete()

                print('%s evolution(s) have been deleted.' % len(to_wipe_ids))
