"""Management command for applying, inspecting, and hinting evolutions."""

from __future__ import print_function, unicode_literals

import textwrap
import os

from django.conf import settings
from django.core.exceptions import ImproperlyConfigured
from django.core.management.base import CommandError
from django.db.utils import DEFAULT_DB_ALIAS
from django.dispatch import receiver

from django_evolution.compat import six
from django_evolution.compat.apps import get_app
from django_evolution.compat.commands import BaseCommand
from django_evolution.compat.six.moves import input
from django_evolution.compat.translation import ngettext, gettext as _
from django_evolution.conf import django_evolution_settings
from django_evolution.errors import EvolutionException
from django_evolution.evolve import EvolveAppTask, Evolver, PurgeAppTask
from django_evolution.signals import (applied_evolution,
                                      applied_migration,
                                      applying_evolution,
                                      applying_migration,
                                      created_models,
                                      creating_models)
from django_evolution.utils.apps import import_management_modules
from django_evolution.utils.evolutions import get_evolutions_path
from django_evolution.utils.sql import SQLExecutor


class Command(BaseCommand):
    """Manages and applies evolutions to the database."""

    help = 'Manage evolutions to the database schema based on model changes.'
    args = '<appname appname ...>'

    requires_model_validation = False

    def add_arguments(self, parser):
        """Add arguments to the command.

        Args:
            parser (object):
                The argument parser to add to.
        """
        parser.add_argument(
            'args',
            metavar='APP_LABEL',
            nargs='*',
            help=_('One or more app labels to evolve.'))
        parser.add_argument(
            '--noinput',
            action='store_false',
            dest='interactive',
            default=True,
            help=_('Automatically says yes to any prompts. When used with '
                   '--execute, this will apply evolutions without first '
                   'asking for confirmation.'))
        parser.add_argument(
            '--hint',
            action='store_true',
            dest='hint',
            default=False,
            help=_('Display sample evolutions covering any new changes made '
                   'to models since the last evolution.'))
        parser.add_argument(
            '--purge',
            action='store_true',
            dest='purge',
            default=False,
            help=_('Purge deleted applications from the evolution history.'))
        parser.add_argument(
            '--sql',
            action='store_true',
            dest='compile_sql',
            default=False,
            help=_('Display the evolutions as SQL.'))
        parser.add_argument(
            '-w',
            '--write',
            metavar='EVOLUTION_NAME',
            action='store',
            dest='write_evolution_name',
            default=None,
            help=_('Write the generated evolutions to files with the given '
                   'evolution name in each affected app\'s "evolutions" '
                   'paths.'))
        parser.add_argument(
            '-x',
            '--execute',
            action='store_true',
            dest='execute',
            default=False,
            help=_('Apply evolutions to the database.'))
        parser.add_argument(
            '--database',
            action='store',
            dest='database',
            help=_('Specify the database containing models to synchronize.'))

    def handle(self, *app_labels, **options):
        """Handle the command.

        This will validate the arguments and run through the evolution
        process.

        Args:
            app_labels (list of unicode):
                The app labels to evolve.

            options (dict):
                Options parsed by the argument parser.

        Raises:
            django.core.management.base.CommandError:
                Arguments were invalid or something went wrong. Details are
                in the message.
        """
        if not django_evolution_settings.ENABLED:
            raise CommandError(
                _('Django Evolution is disabled for this project. '
                  'Evolutions cannot be manually run.'))

        self.purge = options['purge']
        self.verbosity = int(options['verbosity'])

        hint = options['hint']
        compile_sql = options['compile_sql']
        database_name = options['database'] or DEFAULT_DB_ALIAS
        execute = options['execute']
        interactive = options['interactive']
        write_evolution_name = options['write_evolution_name']

        if app_labels and execute:
            raise CommandError(
                _('Cannot specify an application name when executing '
                  'evolutions.'))

        if write_evolution_name and not hint:
            raise CommandError(_('--write cannot be used without --hint.'))

        import_management_modules()

        try:
            self.evolver = Evolver(database_name=database_name,
                                   hinted=hint,
                                   verbosity=self.verbosity,
                                   interactive=interactive)

            # Figure out what tasks we need to add to the evolver. This
            # must be done before we check any state (as that will finalize
            # the task list).
            self._add_tasks(app_labels)

            # Calculate some information we may need later.
            self.active_purge_tasks = [
                task
                for task in self.evolver.tasks
                if isinstance(task, PurgeAppTask) and len(task.sql) > 0
            ]

            # Display any additional information on the evolution process
            # the caller may be interested in.
            if self.verbosity > 1:
                self._display_extra_task_details()

            # Simulate the evolutions to make sure that they'll get us to the
            # target database state. This will raise a CommandError with
            # helpful information if the evolutions don't get us there, or
            # if one or more evolutions couldn't be simulated.
            simulated = self._check_simulation()

            if not self.evolver.get_evolution_required():
                if self.verbosity > 0:
                    self.stdout.write(_('No database upgrade required.\n'))
            elif execute:
                if not interactive or self._confirm_execute():
                    self._perform_evolution()
                else:
                    self.stderr.write(_('Database upgrade cancelled.\n'))
            elif compile_sql:
                self._display_compiled_sql()
            else:
                # Be helpful and list any applications that can be purged,
                # and then show any evolution content that may be useful to
                # the user.
                self._display_available_purges()
                self._generate_evolution_contents(write_evolution_name)

                if simulated:
                    if self.verbosity > 0:
                        self.stdout.write(_('Trial upgrade successful!\n'))

                    if not self.evolver.hinted and self.verbosity > 0:
                        self.stdout.write(_(
                            'Run `./manage.py evolve --execute` to apply '
                            'the evolution.\n'))
        except EvolutionException as e:
            raise CommandError(six.text_type(e))

    def _add_tasks(self, app_labels):
        """Add tasks to the evolver, based on the command options.

        This will queue up the applications that need to be evolved, and
        queue up the purging of stale applications if requested.

        Args:
            app_labels (list of unicode):
                The list of app labels to evolve. If this is empty, all
                registered apps will be evolved.
        """
        evolver = self.evolver

        if app_labels:
            # The caller wants to evolve specific apps. Queue each one,
            # handling any invalid app labels in the process.
            try:
                for app_label in app_labels:
                    evolver.queue_evolve_app(get_app(app_label))
            except (ImportError, ImproperlyConfigured) as e:
                raise CommandError(
                    _('%s. Are you sure your INSTALLED_APPS setting is '
                      'correct?')
                    % e)
        else:
            # The caller wants the default behavior of evolving all apps
            # with pending evolutions.
            evolver.queue_evolve_all_apps()

        if self.purge:
            # The caller wants to purge all old stale applications that
            # no longer exist.
            #
            # Note that we don't do this by default, since those apps
            # might not be permanently added to the list of installed apps.
            evolver.queue_purge_old_apps()

    def _display_extra_task_details(self):
        """Display some informative state about queued tasks.

        This will list any applications that are already up-tp-date, and
        list whether or not any applications need to be purged.
        """
        # List all applications that appear up-to-date.
        for task in self.evolver.tasks:
            if (isinstance(task, EvolveAppTask) and
                not task.evolution_required):
                self.stdout.write(_('Application "%s" is up-to-date\n')
                                  % task.app_label)

        if self.purge and not self.active_purge_tasks:
            # List whether there are any applications that need to be
            # purged.
            self.stdout.write(_('No applications need to be purged.\n'))

    def _check_simulation(self):
        """Check the results of a simulation.

        This will check first if a simulation could even occur (based on
        whether there are raw SQL mutations that are going to be applied). If a
        simulation did occur, information on the simulation results and
        the resulting signature diff will be displayed.

        If a simulation either could not be performed, or was performed and
        succeeded, a result will be returned so that the caller can perform
        additional operations based on that state.

        If a simulation could be performed but failed, this will immediately
        terminate the command with an error message.

        Returns:
            bool:
            ```True`` if the simulation was successful and all changes were
            resolved. ``False`` if a simulation could not be performed due to
            raw SQL mutations.

        Raises:
            django.core.management.base.CommandError:
                A simulation was performed, but changes could not be resolved.
        """
        if not self.evolver.can_simulate():
            self.stdout.write(self.style.NOTICE(
                _('Evolution could not be simulated, possibly due '
                  'to raw SQL mutations\n')))

            return False

        diff = self.evolver.diff_evolutions()

        if diff.is_empty(ignore_apps=not self.purge):
            return True

        if self.evolver.hinted:
            self.stderr.write(self._wrap_paragraphs(_(
                'Your models contain changes that Django Evolution '
                'cannot resolve automatically.\n'
                '\n'
                'This is probably due to a currently unimplemented '
                'mutation type. You will need to manually construct a '
                'mutation to resolve the remaining changes.')))
        else:
            self.stderr.write(self._wrap_paragraphs(_(
                'The stored evolutions do not completely resolve '
                'all model changes.\n'
                '\n'
                'Run `./manage.py evolve --hint` to see a '
                'suggestion for the changes required.')))

        self.stdout.write('\n\n')
        self.stdout.write(self._wrap_paragraphs(_(
            'The following are the changes that could not be resolved:')))
        self.stdout.write('\n%s\n' % diff)

        raise CommandError(_(
            'Your models contain changes that Django Evolution cannot '
            'resolve automatically.'))

    def _confirm_execute(self):
        """Prompt the user to confirm execution of an evolution.

        This will warn the user of the risks of evolving the database and
        to recommend a backup. It will then prompt for confirmation, returning
        the result.

        Returns:
            bool:
            ``True`` if the user confirmed the execution. ``False`` if the
            execution should be cancelled.
        """
        prompt = self._wrap_paragraphs(
            _('You have requested a database upgrade. This will alter '
              'tables and data currently in the "%s" database, and may '
              'result in IRREVERSABLE DATA LOSS. Upgrades should be '
              '*thoroughly* reviewed and tested prior to execution.\n'
              '\n'
              'MAKE A BACKUP OF YOUR DATABASE BEFORE YOU CONTINUE!\n'
              '\n'
              'Are you sure you want to execute the database upgrade?\n'
              '\n'
              'Type "yes" to continue, or "no" to cancel:')
            % self.evolver.database_name)

        # Note that we must append a space here, rather than above, since the
        # paragraph wrapping logic will strip trailing whitespace.
        return input('%s ' % prompt).lower() == 'yes'

    def _perform_evolution(self):
        """Perform the evolution.

        This will perform the evolution, based on the options passed to this
        command. Progress on the evolution will be printed to the console.

        Raises:
            django.core.management.base.CommandError:
                The evolution failed.
        """
        evolver = self.evolver
        verbosity = self.verbosity

        if verbosity > 0:
            @receiver(applying_evolution, sender=evolver)
            def _on_applying_evolution(task, evolutions, **kwargs):
                if verbosity > 2:
                    message = (
                        _('Applying database evolutions for %(app_label)s '
                          '(%(evolution_labels)s)...\n')
                        % {
                            'app_label': task.app_label,
                            'evolution_labels': ', '.join(
                                evolution.label
                                for evolution in evolutions
                            ),
                        }
                    )
                else:
                    message = (
                        _('Applying database evolutions for '
                          '%(app_label)s...\n')
                        % {
                            'app_label': task.app_label,
                        }
                    )

                self.stdout.write(message)

            @receiver(applying_migration, sender=evolver)
            def _on_applying_migration(migration, **kwargs):
                self.stdout.write(
                    _('Applying database migration %(migration_name)s for '
                      '%(app_label)s...\n')
                    % {
                        'app_label': migration.app_label,
                        'migration_name': migration.name,
                    })

            @receiver(creating_models, sender=evolver)
            def _on_creating_models(app_label, model_names, **kwargs):
                if verbosity > 2:
                    message = (
                        _('Creating new database models for %(app_label)s '
                          '(%(model_names)s)...\n')
                        % {
                            'app_label': app_label,
                            'model_names': ', '.join(model_names),
                        }
                    )
                else:
                    message = (
                        _('Creating new database models for '
                          '%(app_label)s...\n')
                        % {
                            'app_label': app_label,
                        }
                    )

                self.stdout.write(message)

        if verbosity > 1:
            @receiver(applied_evolution, sender=evolver)
            def _on_applied_evolution(task, evolutions, **kwargs):
                if verbosity > 2:
                    message = (
                        _('Successfully applied database evolutions for '
                          '%(app_label)s (%(evolution_labels)s).\n')
                        % {
                            'app_label': task.app_label,
                            'evolution_labels': ', '.join(
                                evolution.label
                                for evolution in evolutions
                            ),
                        }
                    )
                else:
                    message = (
                        _('Successfully applied database evolutions for '
                          '%(app_label)s.\n')
                        % {
                            'app_label': task.app_label,
                        }
                    )

                self.stdout.write(message)

            @receiver(applied_migration, sender=evolver)
            def _on_applied_migration(migration, **kwargs):
                self.stdout.write(
                    _('Successfully applied database migration '
                      '%(migration_name)s for %(app_label)s.\n')
                    % {
                        'app_label': migration.app_label,
                        'migration_name': migration.name,
                    })

            @receiver(created_models, sender=evolver)
            def _on_created_models(app_label, model_names, **kwargs):
                if verbosity > 2:
                    message = (
                        _('Successfully created new database models for '
                          '%(app_label)s (%(model_names)s).\n')
                        % {
                            'app_label': app_label,
                            'model_names': ', '.join(model_names),
                        }
                    )
                else:
                    message = (
                        _('Successfully created new database models for '
                          '%(app_label)s.\n')
                        % {
                            'app_label': app_label,
                        }
                    )

                self.stdout.write(message)

        self.stdout.write(
            '\n%s\n\n'
            % self._wrap_paragraphs(_(
                'This may take a while. Please be patient, and DO NOT '
                'cancel the upgrade!')))

        try:
            evolver.evolve()
        except EvolutionException as e:
            self.stderr.write('%s\n' % e)

            if getattr(e, 'last_sql_statement', None):
                self.stderr.write(
                    _('The SQL statement that failed was: %s\n')
                    % (e.last_sql_statement,))

            raise CommandError(six.text_type(e))

        if verbosity > 0:
            if evolver.installed_new_database:
                self.stdout.write(_('The database creation was successful!\n'))
            else:
                self.stdout.write(_('The database upgrade was successful!\n'))

    def _display_compiled_sql(self):
        """Display the compiled SQL for the evolution run.

        This will output the SQL that would be executed based on the options
        passed to the command.
        """
        database_name = self.evolver.database_name

        with SQLExecutor(database=database_name) as executor:
            for i, task in enumerate(self.evolver.tasks):
                if task.sql:
                    if i > 0:
                        self.stdout.write('\n')

                    self.stdout.write('-- %s\n' % task)

                    for statement in executor.run_sql(task.sql, capture=True):
                        self.stdout.write('%s\n' % statement)

    def _display_available_purges(self):
        """Display the apps that can be purged."""
        purge_tasks = self.active_purge_tasks

        if purge_tasks:
            self.stdout.write(
                ngettext('The following application can be purged:',
                         'The following applications can be purged:',
                         len(purge_tasks)))
            self.stdout.write('\n')

            for purge_task in purge_tasks:
                self.stdout.write('    * %s\n' % purge_task.app_label)

            self.stdout.write('\n')
        elif self.verbosity > 1:
            self.stdout.write(_('No applications need to be purged.\n'))

    def _generate_evolution_contents(self, evolution_label=None):
        """Generate the contents of evolution files or hinted evolutions.

        This will grab the contents of either the stored evolution files
        or hinted evolutions (if using ``--hint``) and write them to the
        console or to generated evolution files (if using ``--write``).

        Args:
            evolution_label (unicode, optional):
                The label used as a base for any generated filenames.
                If provided, the filenames will be written to the appropriate
                evolution directories, with a ``.py`` appended.

        Raises:
            django.core.management.base.CommandError:
                An evolution file couldn't be written. Details are in the
                error message.
        """
        evolution_contents = self.evolver.iter_evolution_content()

        if evolution_label:
            # We're writing the hinted evolution files to disk. Notify the user
            # and begin writing.
            verbosity = self.verbosity

            if verbosity > 0:
                self.stdout.write('\n%s\n\n' % self._wrap_paragraphs(_(
                    'The following evolution files were written. Verify the '
                    'contents and add them to the SEQUENCE lists in each '
                    '__init__.py.')))

            for task, content in evolution_contents:
                assert hasattr(task, 'app')

                dirname = get_evolutions_path(task.app)
                filename = os.path.join(dirname, '%s.py' % evolution_label)

                if not os.path.exists(dirname):
                    try:
                        os.mkdir(dirname, 0o755)
                    except IOError as e:
                        raise CommandError(
                            _('Unable to create evolutions directory "%s": %s')
                            % (dirname, e))

                try:
                    with open(filename, 'w') as fp:
                        fp.write(content.strip())
                        fp.write('\n')
                except Exception as e:
                    raise CommandError(
                        _('Unable to write evolution file "%s": %s')
                        % (filename, e))

                if verbosity > 0:
                    self.stdout.write('  * %s\n' % os.path.relpath(filename))
        else:
            # We're just going to output the hint content.
            for i, (task, content) in enumerate(evolution_contents):
                assert hasattr(task, 'app_label')

                self.stdout.write('#----- Evolution for %s\n' % task.app_label)
                self.stdout.write(content.strip())
                self.stdout.write('#----------------------\n')

            self.stdout.write('\n')

    def _wrap_paragraphs(self, text):
        """Wrap a block of text into paragraphs.

        This will take paragraphs worth of text and wrap them to fit in a
        standard terminal width, helping provide more readable output.

        Args:
            text (unicode):
                The text to wrap.

        Returns:
            unicode:
            The wrapped text.
        """
        return '\n'.join(
            textwrap.fill(paragraph)
            for paragraph in text.splitlines()
        )
