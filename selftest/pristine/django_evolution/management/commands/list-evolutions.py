from __future__ import print_function, unicode_literals

from django_evolution.compat.apps import get_apps
from django_evolution.compat.commands import BaseCommand
from django_evolution.compat.translation import gettext as _
from django_evolution.models import Evolution
from django_evolution.utils.apps import get_app_label


class Command(BaseCommand):
    """Lists the applied evolutions for one or more apps."""

    def add_arguments(self, parser):
        """Add arguments to the command.

        Args:
            parser (object):
                The argument parser to add to.
        """
        parser.add_argument(
            'args',
            metavar='APP_LABEL',
            nargs='*',
            help=_('One or more app labels to list evolutions for.'))

    def handle(self, *app_labels, **options):
        if not app_labels:
            app_labels = [get_app_label(app) for app in get_apps()]

        for app_label in app_labels:
            evolutions = list(Evolution.objects.filter(app_label=app_label))

            if evolutions:
                print("Applied evolutions for '%s':" % app_label)

                for evolution in evolutions:
                    print('    %s' % evolution.label)

                print()
