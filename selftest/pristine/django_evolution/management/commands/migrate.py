"""Replacement for Django's migrate command."""

from __future__ import unicode_literals

from django.conf import settings
from django.core.management import call_command
from django.core.management.base import CommandError

try:
    from django.core.management.commands.migrate import Command as BaseCommand
    has_migrate = True
except ImportError:
    from django_evolution.compat.commands import BaseCommand
    has_migrate = False

from django_evolution.compat.translation import gettext as _
from django_evolution.conf import django_evolution_settings


class Command(BaseCommand):
    """Command for working with Django migrations.

    This wraps the original ``migrate`` command. If Django Evolution is
    enabled, this will call ``evolve`` with the necessary parameters for the
    ``migrate`` call. If disabled, this will call Django's ``migrate``.

    There are some differences in our ``migrate``:

    * ``--fake`` is not supported, and will show an error if used.
    * ``--run-syncdb`` and ``--fake-initial`` are always implied, and cannot
      be turned off.
    * ``initial_data`` fixtures are not loaded (they were removed in
      Django 1.9 anyway).
    * ``--no-initial-data`` isn't directly handled, but since initial data
      isn't supported, that doesn't impact anything.
    """

    def handle(self, *args, **options):
        """Handle the command.

        This will validate the arguments and run through the evolution
        process.

        Args:
            *args (list of unicode):
                Positional arguments passed on the command line.

            **options (dict):
                Options parsed by the argument parser.

        Raises:
            django.core.management.base.CommandError:
                Arguments were invalid or something went wrong. Details are
                in the message.
        """
        if not has_migrate:
            raise CommandError(
                _('migrate is not available on this version of Django. '
                  'Use `syncdb` instead.'))

        if not django_evolution_settings.ENABLED:
            # Run the original migrate command.
            return super(Command, self).handle(*args, **options)

        if options.get('migration_name'):
            raise CommandError(
                _('The migrate command cannot apply a specific migration '
                  'name when Django Evolution is in use. Set '
                  '`DJANGO_EVOLUTION_ENABLED = False` in your settings.py '
                  'to use the original migrate command.'))

        if options.get('fake'):
            raise CommandError(
                _('The migrate command cannot use --fake when Django '
                  'Evolution is in use. Set '
                  '`DJANGO_EVOLUTION_ENABLED = False` in your settings.py '
                  'to use the original migrate command.'))

        app_labels = []

        if options.get('app_label'):
            app_labels.append(options.get('app_label'))

        call_command('evolve',
                     *app_labels,
                     verbosity=options.get('verbosity'),
                     interactive=options.get('interactive'),
                     database=options.get('database'),
                     execute=True)
