"""Replacement for Django's syncdb command."""

from __future__ import unicode_literals

from django.conf import settings
from django.core.management import call_command
from django.core.management.base import CommandError

try:
    from django.core.management.commands.syncdb import Command as BaseCommand
    has_syncdb = True
except ImportError:
    from django_evolution.compat.commands import BaseCommand
    has_syncdb = False

from django_evolution.compat.translation import gettext as _
from django_evolution.conf import django_evolution_settings


class Command(BaseCommand):
    """Legacy command for synchronizing database models.

    This wraps the original ``syncdb`` command. If Django Evolution is enabled,
    this will call ``evolve`` with the necessary parameters for the ``syncdb``
    call. If disabled, this will call Django's ``syncdb``.

    There are some differences in our ``syncdb``:

    * ``initial_data`` fixtures are not loaded.
    * ``--no-initial-data`` isn't directly handled, but since initial data
      isn't supported, that doesn't impact anything.
    """

    def handle(self, *args, **options):
        """Handle the command.

        This will validate the arguments and run through the evolution
        process.

        Args:
            *args (list of unicode):
                Positional arguments passed on the command line.

            **options (dict):
                Options parsed by the argument parser.

        Raises:
            django.core.management.base.CommandError:
                Arguments were invalid or something went wrong. Details are
                in the message.
        """
        if not has_syncdb:
            raise CommandError(
                _('syncdb is not available on this version of Django. '
                  'Use `migrate` instead.'))

        if not django_evolution_settings.ENABLED:
            # Run the original syncdb command.
            return super(Command, self).handle(*args, **options)

        call_command('evolve',
                     verbosity=options.get('verbosity'),
                     interactive=options.get('interactive'),
                     database=options.get('database'),
                     execute=True)
