"""Constants used throughout Django Evolution."""

from __future__ import unicode_literals


class UpgradeMethod(object):
    """Upgrade methods available for an application."""

    #: The app is upgraded through Django Evolution.
    EVOLUTIONS = 'evolutions'

    #: The app is upgraded through Django Migrations.
    MIGRATIONS = 'migrations'


class EvolutionsSource(object):
    """The source for an app's evolutions."""

    #: The evolutions are provided by the app.
    APP = 'app'

    #: The evolutions are built-in to Django Evolution.
    BUILTIN = 'builtin'

    #: The evolutions are provided custom by the project.
    PROJECT = 'project'
