"""Serialization and deserialization.

These classes are responsible for converting objects/values to signature data
or to Python code (for evolution hints), and for converting signature data back
to objects.

The classes in this file are considered private API. The only public API is:

* :py:func:`deserialize_from_python`
* :py:func:`serialize_to_signature`
* :py:func:`serialize_to_python`

Version Added:
    2.2
"""

from __future__ import unicode_literals

import inspect
from collections import OrderedDict
from copy import deepcopy
from importlib import import_module

try:
    from enum import Enum
except ImportError:
    Enum = None

from django.db.models import Q

try:
    # Django >= 3.1
    from django.db.models import Deferrable
except ImportError:
    # Django <= 3.0
    Deferrable = None

try:
    # Django >= 1.8
    from django.db.models.expressions import CombinedExpression
except ImportError:
    # Django <= 1.7
    CombinedExpression = None

from django_evolution.compat import six
from django_evolution.placeholders import BasePlaceholder


_deconstructed_serialization_map = {}
_serialization_map = {}


class BaseSerialization(object):
    """Base class for serialization.

    Subclasses should override the methods within this class to provide
    serialization and deserialization logic specific to one or more types.

    Version Added:
        2.2
    """

    @classmethod
    def serialize_to_signature(cls, value):
        """Serialize a value to JSON-compatible signature data.

        Args:
            value (object or type):
                The value to serialize.

        Returns:
            object:
            The resulting signature data.
        """
        raise NotImplementedError

    @classmethod
    def serialize_to_python(cls, value):
        """Serialize a value to a Python code string.

        Args:
            value (object or type):
                The value to serialize.

        Returns:
            unicode:
            The resulting Python code.
        """
        raise NotImplementedError

    @classmethod
    def deserialize_from_signature(cls, payload):
        """Deserialize signature data to a value.

        Args:
            payload (object):
                The payload to deserialize.

        Returns:
            object or type:
            The resulting value.
        """
        raise NotImplementedError

    @classmethod
    def deserialize_from_deconstructed(cls, type_cls, args, kwargs):
        """Deserialize an object from deconstructed object information.

        Args:
            type_cls (type):
                The type of object to construct.

            args (tuple):
                The positional arguments passed to the constructor.

            kwargs (dict):
                The keyword arguments passed to the constructor.

        Returns:
            object:
            The resulting object.
        """
        raise NotImplementedError


class BaseIterableSerialization(BaseSerialization):
    """Base class for iterable types.

    This will handle the signature-related serialization/deserialization
    automatically, based on :py:attr:`iterable_type`.

    Version Added:
        2.2
    """

    #: The type used to store items.
    #:
    #: Type:
    #:     type
    item_type = None

    @classmethod
    def serialize_to_signature(cls, value):
        """Serialize a value to JSON-compatible signature data.

        Args:
            value (object or type):
                The value to serialize.

        Returns:
            object:
            The resulting signature data.
        """
        return cls.item_type(
            serialize_to_signature(_item)
            for _item in value
        )

    @classmethod
    def deserialize_from_signature(cls, payload):
        """Deserialize signature data to a value.

        Args:
            payload (object):
                The payload to deserialize.

        Returns:
            object or type:
            The resulting value.
        """
        return cls.item_type(
            deserialize_from_signature(_item)
            for _item in payload
        )


class PrimitiveSerialization(BaseSerialization):
    """Base class for serialization for Python primitives.

    This will wrap simple values, deep-copying them when storing as signature
    data, returning a :py:func:`repr` result when converting to Python code,
    and using the value as-is when deserializing.

    Version Added:
        2.2
    """

    @classmethod
    def serialize_to_signature(cls, value):
        """Serialize a value to JSON-compatible signature data.

        Args:
            value (object):
                The value to serialize.

        Returns:
            object:
            A deep copy of the provided value.
        """
        return deepcopy(value)

    @classmethod
    def serialize_to_python(cls, value):
        return repr(value)

    @classmethod
    def deserialize_from_signature(cls, payload):
        """Deserialize signature data to a value.

        This will just return the value as-is.

        Args:
            payload (object):
                The payload to deserialize.

        Returns:
            object or type:
            The resulting value.
        """
        return payload


class ClassSerialization(BaseSerialization):
    """Base class for serialization for classes.

    This is able to serialize a class name to Python. It cannot be used for
    signature data.

    Version Added:
        2.2
    """

    @classmethod
    def serialize_to_python(cls, value):
        if value.__module__.startswith('django.db.models'):
            prefix = 'models.'
        else:
            prefix = ''

        return '%s%s' % (prefix, value.__name__)


class DictSerialization(BaseSerialization):
    """Base class for serialization for dictionaries.

    This will be used for plain :py:class:`dict` instances and for
    :py:class:`collections.OrderedDict`.

    Version Added:
        2.2
    """

    @classmethod
    def serialize_to_signature(cls, value):
        """Serialize a dictionary to JSON-compatible signature data.

        Args:
            value (dict):
                The dictionary to serialize.

        Returns:
            dict:
            The resulting dictionary.
        """
        return {
            _key: serialize_to_signature(_value)
            for _key, _value in six.iteritems(value)
        }

    @classmethod
    def serialize_to_python(cls, value):
        """Serialize a dictionary to a Python code string.

        Args:
            value (dict):
                The dictionary to serialize.

        Returns:
            unicode:
            The resulting Python code.
        """
        if isinstance(value, OrderedDict):
            items = six.iteritems(value)
        else:
            items = sorted(six.iteritems(value),
                           key=lambda pair: pair[0])

        return '{%s}' % ', '.join(
            '%s: %s' % (serialize_to_python(_key),
                        serialize_to_python(_value))
            for _key, _value in items
        )

    @classmethod
    def deserialize_from_signature(cls, payload):
        """Deserialize dictionary signature data to a value.

        Args:
            payload (dict):
                The payload to deserialize.

        Returns:
            dict:
            The resulting value.
        """
        return {
            _key: deserialize_from_signature(_value)
            for _key, _value in six.iteritems(payload)
        }


class EnumSerialization(BaseSerialization):
    """Serialization for enums.

    Version Added:
        2.2
    """

    @classmethod
    def serialize_to_signature(cls, value):
        """Serialize a value to JSON-compatible signature data.

        Args:
            value (object):
                The value to serialize.

        Returns:
            object:
            A deep copy of the provided value.
        """
        cls = type(value)

        return {
            '_enum': True,
            'type': '%s.%s' % (cls.__module__, cls.__name__),
            'value': value._name_,
        }

    @classmethod
    def serialize_to_python(cls, value):
        """Serialize an enum value to a Python code string.

        Args:
            value (enum.Enum):
                The enum value to serialize.

        Returns:
            unicode:
            The resulting Python code.
        """
        cls = type(value)
        cls_name = cls.__name__
        mod_name = cls.__module__

        if mod_name.startswith('django.db.models'):
            cls_path = 'models.%s' % cls_name
        else:
            cls_path = '%s.%s' % (mod_name, cls_name)

        return '%s.%s' % (cls_path, value._name_)

    @classmethod
    def deserialize_from_signature(cls, payload):
        """Deserialize signature data to a value.

        This will just return the value as-is.

        Args:
            payload (object):
                The payload to deserialize.

        Returns:
            object or type:
            The resulting value.
        """
        cls_path = payload.get('type')
        value = payload.get('value')

        cls_module, cls_name = cls_path.rsplit('.', 1)

        try:
            cls_type = getattr(import_module(cls_module), cls_name)
        except (AttributeError, ImportError):
            raise ImportError('Unable to locate enum type %s' % cls_path)

        return cls_type[value]


class ListSerialization(BaseIterableSerialization):
    """Base class for serialization for lists.

    Version Added:
        2.2
    """

    item_type = list

    @classmethod
    def serialize_to_python(cls, value):
        """Serialize a list to a Python code string.

        Args:
            value (list):
                The list to serialize.

        Returns:
            unicode:
            The resulting Python code.
        """
        return '[%s]' % ', '.join(
            serialize_to_python(_item)
            for _item in value
        )


class TupleSerialization(BaseIterableSerialization):
    """Base class for serialization for tuples.

    Version Added:
        2.2
    """

    item_type = tuple

    @classmethod
    def serialize_to_python(cls, value):
        """Serialize a tuple to a Python code string.

        Args:
            value (tuple):
                The tuple to serialize.

        Returns:
            unicode:
            The resulting Python code.
        """
        if len(value) == 1:
            suffix = ','
        else:
            suffix = ''

        return '(%s%s)' % (
            ', '.join(
                serialize_to_python(_item)
                for _item in value
            ),
            suffix)


class SetSerialization(BaseIterableSerialization):
    """Base class for serialization for sets.

    Version Added:
        2.2
    """

    item_type = set

    @classmethod
    def serialize_to_python(cls, value):
        """Serialize a set to a Python code string.

        Args:
            value (set):
                The set to serialize.

        Returns:
            unicode:
            The resulting Python code.
        """
        return '{%s}' % ', '.join(
            serialize_to_python(_item)
            for _item in sorted(value)
        )


class StringSerialization(PrimitiveSerialization):
    """Base class for serialization for strings.

    This will encode to a string, and ensure the results are consistent
    across Python 2 and 3.

    Version Added:
        2.2
    """

    @classmethod
    def serialize_to_signature(cls, value):
        """Serialize a string to JSON-compatible string.

        Args:
            value (bytes or unicode):
                The string to serialize. If a byte string, it's expected to
                contain UTF-8 data.

        Returns:
            unicode:
            The resulting string.
        """
        if isinstance(value, bytes):
            value = value.decode('utf-8')

        return value

    @classmethod
    def serialize_to_python(cls, value):
        """Serialize a string to a Python code string.

        Args:
            value (bytes or unicode):
                The string to serialize. If a byte string, it's expected to
                contain UTF-8 data.

        Returns:
            unicode:
            The resulting Python code.
        """
        if isinstance(value, bytes):
            value = value.decode('utf-8')

        result = repr(value)

        if six.PY2 and result.startswith('u'):
            # Make sure we're getting the real Unicode values out, and not
            # string escapes.
            #
            # Users will need to add a "coding: utf-8" to the file, if
            # Unicode characters are present and they care about support
            # for Python 2.7.
            result = result[1:].decode('unicode-escape')

        return result


class DeconstructedSerialization(BaseSerialization):
    """Base class for serialization for objects supporting deconstruction.

    This is used for Django objects that support a ``deconstruct()`` method.
    It will convert to/from deconstructed signature data, and provide a
    suitable representation in Python.

    Version Added:
        2.2
    """

    @classmethod
    def serialize_to_signature(cls, value):
        """Serialize a value to JSON-compatible signature data.

        This will deconstruct the object and return a dictionary containing
        the deconstructed information and a flag noting that it must be
        reconstructed.

        Args:
            value (object or type):
                The value to serialize.

        Returns:
            object:
            The resulting signature data.
        """
        cls_path, args, kwargs = cls._deconstruct_object(value)

        return {
            '_deconstructed': True,
            'args': serialize_to_signature(args) or (),
            'kwargs': serialize_to_signature(kwargs),
            'type': cls_path,
        }

    @classmethod
    def serialize_to_python(cls, value):
        """Serialize an object to a Python code string.

        This will generate code that constructs an instance of the object.

        Args:
            value (object):
                The object to serialize.

        Returns:
            unicode:
            The resulting Python code.
        """
        cls_path, args, kwargs = cls._deconstruct_object(value)
        module_path, cls_name = cls_path.rsplit('.', 1)

        if cls_path.startswith('django.db.models'):
            cls_name = 'models.%s' % cls_name

        all_args = []

        if args:
            all_args += [
                serialize_to_python(_arg)
                for _arg in args
            ]

        if kwargs:
            all_args += [
                '%s=%s' % (_key, serialize_to_python(_value))
                for _key, _value in sorted(six.iteritems(kwargs),
                                           key=lambda pair: pair[0])
            ]

        return '%s(%s)' % (cls_name, ', '.join(all_args))

    @classmethod
    def deserialize_from_signature(cls, payload):
        """Deserialize deconstructed dictionary signature data to an object.

        This will attempt to re-construct an object from the deconstructed
        signature data. This may fail if there is any issue looking up or
        instantiating the object.

        Args:
            payload (dict):
                The payload to deserialize.

        Returns:
            dict:
            The resulting value.

        Raises:
            Exception:
                An unexpected error occurred when instantiating the object.

            ImportError:
                The class specified in the signature data could not be
                imported.
        """
        cls_type, args, kwargs = cls._deserialize_deconstructed(payload)

        if cls_type in _deconstructed_serialization_map:
            serialization = _deconstructed_serialization_map[cls_type]

            try:
                return serialization.deserialize_from_deconstructed(
                    cls_type, args, kwargs)
            except NotImplementedError:
                # This doesn't provide explicit deserialization. Fall back
                # on defaults.
                pass

        # Let any exception bubble up.
        return cls_type(*args, **kwargs)

    @classmethod
    def _deconstruct_object(cls, obj):
        """Deconstruct an object.

        This can be overridden by subclasses to work around lack of
        deconstruction support on earlier versions of Django.

        Args:
            obj (object):
                The object to deconstruct.
        """
        if not hasattr(obj, 'deconstruct'):
            raise NotImplementedError(
                '%s.deconstruct() is not available on this version of '
                'Django. Subclases of the serializer should override '
                '_deconstruct_object to support this.')

        return obj.deconstruct()

    @classmethod
    def _deserialize_deconstructed(cls, payload):
        """Deserialize a deconstructed object payload.

        Args:
            payload (dict):
                The payload representing a deconstructed object.

        Returns:
            tuple:
            A tuple containing:

            1. The object class.
            2. Positional arguments to pass to the constructor.
            3. Keyword arguments to pass to the constructor,
        """
        cls_path = payload['type']
        cls_module, cls_name = cls_path.rsplit('.', 1)

        try:
            cls_type = getattr(import_module(cls_module), cls_name)
        except (AttributeError, ImportError):
            raise ImportError('Unable to locate value type %s' % cls_path)

        args = tuple(
            deserialize_from_signature(_arg_value)
            for _arg_value in payload['args']
        )

        kwargs = {
            _key: deserialize_from_signature(_arg_value)
            for _key, _arg_value in six.iteritems(payload['kwargs'])
        }

        return cls_type, args, kwargs


class PlaceholderSerialization(BaseSerialization):
    """Base class for serialization for a placeholder object.

    Version Added:
        2.2
    """

    @classmethod
    def serialize_to_python(cls, value):
        """Serialize a placeholder object to a Python code string.

        Args:
            value (django_evolution.placeholders.BasePlaceholder):
                The object to serialize.

        Returns:
            unicode:
            The resulting Python code.
        """
        return repr(value)


class CombinedExpressionSerialization(DeconstructedSerialization):
    """Base class for serialization for CombinedExpression objects.

    This ensures a consistent representation of
    :py:class:`django.db.models.CombinedExpression` objects across all
    supported versions of Django.

    Note that while this can technically be used in version of Django prior
    to 2.0, many of the objects nested within won't be supported. In practice,
    database features really start to make use of this in a way that impacts
    serialization code in Django 2.0 and higher.

    Version Added:
        2.2
    """

    #: A mapping of SQL-side connectors to the equivalent Python operators.
    connector_operators = {
        '+': '+',
        '-': '-',
        '*': '*',
        '/': '/',
        '^': '**',
        '%%': '%',
    }

    #: A mapping of SQL-side connectors to the methods that produce them.
    connector_methods = {
        '&': 'bitand',
        '|': 'bitor',
        '#': 'bitxor',
        '<<': 'bitleftshift',
        '>>': 'bitrightshift',
    }

    @classmethod
    def serialize_to_python(cls, value):
        """Serialize a CombinedExpression object to a Python code string.

        Args:
            value (object):
                The object to serialize.

        Returns:
            unicode:
            The resulting Python code.
        """
        operands = []

        for operand in (value.lhs, value.rhs):
            operand_str = serialize_to_python(operand)

            if isinstance(operand, CombinedExpression):
                # Preserve the grouping of nested expressions, which Python's
                # operator precedence could otherwise change.
                operand_str = '(%s)' % operand_str

            operands.append(operand_str)

        connector = value.connector

        if connector in cls.connector_operators:
            return '%s %s %s' % (operands[0],
                                 cls.connector_operators[connector],
                                 operands[1])
        elif connector in cls.connector_methods:
            # These have no Python operator. Django requires calling a
            # method on the left-hand side.
            return '%s.%s(%s)' % (operands[0],
                                  cls.connector_methods[connector],
                                  operands[1])
        else:
            raise ValueError(
                'Unsupported connector %r in combined expression %r'
                % (connector, value))

    @classmethod
    def _deconstruct_object(cls, obj):
        """Deconstruct a CombinedExpression.

        Args:
            obj (django.db.models.expressions.CombinedExpression):
                The object to deconstruct.
        """
        if hasattr(obj, 'deconstruct'):
            # Django >= 2.0
            return (
                super(CombinedExpressionSerialization, cls)
                ._deconstruct_object(obj)
            )
        else:
            # Django <= 1.11
            return (
                '%s.%s' % (CombinedExpression.__module__,
                           CombinedExpression.__name__),
                (
                    serialize_to_signature(obj.lhs),
                    serialize_to_signature(obj.connector),
                    serialize_to_signature(obj.rhs)),
                {},
            )


class QSerialization(DeconstructedSerialization):
    """Base class for serialization for Q objects.

    This ensures a consistent representation of :py:class:`django.db.models.Q`
    objects across all supported versions of Django.

    Django 1.7 through 3.1 encode the data in a different form than 3.2+.
    This ensures serialized data in a form closer to 3.2+'s version, while
    providing compatibility with older versions.

    Version Added:
        2.2
    """

    child_separators = {
        Q.OR: ' | ',
        Q.AND: ' & ',

        # Django >= 4.1
        'XOR': ' ^ ',
    }

    @classmethod
    def serialize_to_signature(cls, q):
        """Serialize a Q object to JSON-compatible signature data.

        Args:
            value (object or type):
                The value to serialize.

        Returns:
            object:
            The resulting signature data.
        """
        q_cls = type(q)
        cls_path = '%s.%s' % (q_cls.__module__, q_cls.__name__)

        if cls_path.startswith('django.db.models.query_utils'):
            cls_path = cls_path.replace('django.db.models.query_utils',
                                        'django.db.models')

        args = [
            serialize_to_signature(_child)
            for _child in q.children
        ]

        kwargs = {}

        if q.connector != q.default:
            kwargs['_connector'] = q.connector

        if q.negated:
            kwargs['_negated'] = True

        return {
            '_deconstructed': True,
            'args': args,
            'kwargs': kwargs,
            'type': cls_path,
        }

    @classmethod
    def serialize_to_python(cls, value):
        """Serialize a Q object to a Python code string.

        This will generate code that constructs an instance of the object,
        handling negation, AND/OR connections, and children.

        Args:
            value (object):
                The object to serialize.

        Returns:
            unicode:
            The resulting Python code.
        """
        q = value
        num_children = len(q.children)

        result = []

        if value.negated:
            result.append('~')

        if num_children == 0:
            result.append('models.Q()')
        else:
            children = []

            for child in value.children:
                if isinstance(child, tuple):
                    children.append(
                        'models.Q(%s=%s)' % (child[0],
                                             serialize_to_python(child[1])))
                elif isinstance(child, Q):
                    children.append(serialize_to_python(child))
                else:
                    raise TypeError('Unexpected type %s (value %r) in Q()'
                                    % (type(child), child))

            if len(children) == 1:
                result.append(children[0])
            elif len(children) > 1:
                result.append(
                    '(%s)'
                    % cls.child_separators[value.connector].join(children))

        return ''.join(result)

    @classmethod
    def deserialize_from_deconstructed(cls, type_cls, args, kwargs):
        """Deserialize an object from deconstructed object information.

        Args:
            type_cls (type):
                The type of object to construct.

            args (tuple):
                The positional arguments passed to the constructor.

            kwargs (dict):
                The keyword arguments passed to the constructor.

        Returns:
            object:
            The resulting object.
        """
        norm_keywords = six.PY2

        negated = kwargs.pop('_negated', False)
        connector = kwargs.pop('_connector', Q.default)

        new_args = []

        for arg in args:
            if isinstance(arg, (list, tuple)):
                if norm_keywords:
                    # On Python 2, keyword arguments should be native strings.
                    # This isn't a problem for general usage, but it does
                    # affect the string representation, which assertQEqual()
                    # uses to determine equality.
                    arg = (arg[0].encode('utf-8'), arg[1])

                new_args.append(tuple(arg))
            else:
                new_args.append(arg)

        if norm_keywords:
            # We also need to normalize anything found in kwargs.
            kwargs = {
                str(_key): _value
                for _key, _value in six.iteritems(kwargs)
            }

        q = type_cls(*new_args, **kwargs)
        q.connector = connector

        if negated:
            q.negate()

        return q


def _init_serialization():
    """Initialize the serialization support."""
    global _deconstructed_serialization_map, _serialization_map

    if _deconstructed_serialization_map or _serialization_map:
        return

    _deconstructed_serialization_map = {
        Q: QSerialization,
    }

    if CombinedExpression is not None:
        _deconstructed_serialization_map[CombinedExpression] = \
            CombinedExpressionSerialization

    _serialization_map = {
        # String-based
        bytes: StringSerialization,
        six.text_type: StringSerialization,

        # Dictionary-based
        OrderedDict: DictSerialization,
        dict: DictSerialization,

        # Primitives
        bool: PrimitiveSerialization,
        float: PrimitiveSerialization,
        int: PrimitiveSerialization,
        type(None): PrimitiveSerialization,

        # Iterables
        list: ListSerialization,
        set: SetSerialization,
        tuple: TupleSerialization,

        # Class references
        type: ClassSerialization,
    }

    if six.PY2:
        _serialization_map.update({
            long: PrimitiveSerialization,
        })


def _get_serializer_for_value(value, serializing):
    """Return a serializer for the specified value.

    Version Added:
        2.2

    Args:
        value (object or type):
            The value to serialize.

    Returns:
        type:
        The serializer class. If one could not be found, ``None`` will be
        returned.
    """
    _init_serialization()

    cls = type(value)
    is_class = inspect.isclass(value)

    serialization_cls = None

    if inspect.isclass(value):
        if cls in _serialization_map:
            serialization_cls = _serialization_map[cls]
        elif is_class:
            serialization_cls = ClassSerialization
    else:
        if cls in _deconstructed_serialization_map:
            serialization_cls = _deconstructed_serialization_map[cls]
        elif (Enum is not None and
              (serializing and issubclass(cls, Enum)) or
              (not serializing and
               isinstance(value, dict) and
               value.get('_enum') is True)):
            serialization_cls = EnumSerialization
        elif serializing and hasattr(value, 'deconstruct'):
            serialization_cls = DeconstructedSerialization
        elif (not serializing and
              isinstance(value, dict) and
              value.get('_deconstructed') is True):
            serialization_cls = DeconstructedSerialization
        elif isinstance(value, BasePlaceholder):
            serialization_cls = PlaceholderSerialization
        elif cls in _serialization_map:
            serialization_cls = _serialization_map[cls]

    return serialization_cls


def serialize_to_signature(value):
    """Serialize a value to the signature.

    Version Added:
        2.2

    Args:
        value (object or type):
            The value to serialize.

    Returns:
        object:
        The resulting JSON-serializable data.
    """
    serialization_cls = _get_serializer_for_value(value, serializing=True)

    if serialization_cls is None:
        raise TypeError(
            'Unsupported type %s passed to serialize_to_signature(). '
            'Value: %r'
            % (type(value), value))

    return serialization_cls.serialize_to_signature(value)


def serialize_to_python(value):
    """Serialize a value to a Python code string.

    Version Added:
        2.2

    Args:
        value (object or type):
            The value to serialize.

    Returns:
        unicode:
        The resulting Python code string.
    """
    serialization_cls = _get_serializer_for_value(value, serializing=True)

    if serialization_cls is None:
        if callable(value):
            return repr(value)

        raise TypeError(
            'Unsupported type %s passed to serialize_to_python(). '
            'Value: %r'
            % (type(value), value))

    return serialization_cls.serialize_to_python(value)


def deserialize_from_signature(payload):
    """Deserialize a value from the signature.

    Version Added:
        2.2

    Args:
        payload (object):
            The payload to deserialize.

    Returns:
        object or type:
        The resulting deserialized value.

    Raises:
        Exception:
            An unexpected error occurred when deserializing. This is specific
            to the type of deserializer.
    """
    serialization_cls = _get_serializer_for_value(payload, serializing=False)

    if serialization_cls is None:
        raise TypeError(
            'Unsupported type %s passed to deserialize_from_signature(). '
            'Value: %r'
            % (type(payload), payload))

    return serialization_cls.deserialize_from_signature(payload)
