"""Internal support for handling deprecations in Django Evolution.

The version-specific objects in this module are not considered stable between
releases, and may be removed at any point. The base objects are considered
stable.

Version Added:
    2.2
"""

from __future__ import unicode_literals

import warnings


class BaseRemovedInDjangoEvolutionWarning(DeprecationWarning):
    """Base class for a Django Evolution deprecation warning.

    All version-specific deprecation warnings inherit from this, allowing
    callers to check for Django Evolution deprecations without being tied to a
    specific version.

    Version Added:
        2.2
    """

    @classmethod
    def warn(cls, message, stacklevel=2):
        """Emit the deprecation warning.

        This is a convenience function that emits a deprecation warning using
        this class, with a suitable default stack level. Callers can provide
        a useful message and a custom stack level.

        Args:
            message (unicode):
                The message to show in the deprecation warning.

            stacklevel (int, optional):
                The stack level for the warning.
        """
        warnings.warn(message, cls, stacklevel=stacklevel + 1)


class RemovedInDjangoEvolution30Warning(BaseRemovedInDjangoEvolutionWarning):
    """Deprecations for features being removed in Django Evolution 3.0.

    Note that this class will itself be removed in Django Evolution 3.0. If you
    need to check against Django Evolution deprecation warnings, please see
    :py:class:`BaseRemovedInDjangoEvolutionWarning`.

    Version Added:
        2.2
    """


class RemovedInDjangoEvolution40Warning(BaseRemovedInDjangoEvolutionWarning):
    """Deprecations for features being removed in Django Evolution 4.0.

    Note that this class will itself be removed in Django Evolution 4.0. If you
    need to check against Django Evolution deprecation warnings, please see
    :py:class:`BaseRemovedInDjangoEvolutionWarning`. Alternatively, you can use
    the alias for this class, :py:data:`RemovedInNextDjangoEvolutionWarning`.

    Version Added:
        2.2
    """


#: Alias for deprecations in the next Django Evolution release.
RemovedInNextDjangoEvolutionWarning = RemovedInDjangoEvolution30Warning
