"""Utilities for building mock database models and fields."""

from __future__ import unicode_literals

from functools import partial

from django.db import models
from django.db.models.base import ModelState
from django.db.models.fields.related import RECURSIVE_RELATIONSHIP_CONSTANT

from django_evolution.compat import six
from django_evolution.compat.datastructures import OrderedDict
from django_evolution.compat.models import (FieldDoesNotExist,
                                            get_remote_field,
                                            get_remote_field_model)
from django_evolution.signature import FieldSignature, ModelSignature


def create_field(project_sig, field_name, field_type, field_attrs,
                 parent_model, related_model=None):
    """Create a Django field instance for the given signature data.

    This creates a field in a way that's compatible with a variety of versions
    of Django. It takes in data such as the field's name and attributes
    and creates an instance that can be used like any field found on a model.

    Args:
        field_name (unicode):
            The name of the field.

        field_type (cls):
            The class for the type of field being constructed. This must be a
            subclass of :py:class:`django.db.models.Field`.

        field_attrs (dict):
            Attributes to set on the field.

        parent_model (cls):
            The parent model that would own this field. This must be a
            subclass of :py:class:`django.db.models.Model`.

        related_model (unicode, optional):
            The full class path to a model this relates to. This requires
            a :py:class:`django.db.models.ForeignKey` field type.

    Returns:
        django.db.models.Field:
        A new field instance matching the provided data.
    """
    # Convert to the standard string format for each version of Python, to
    # simulate what the format would be for the default name.
    field_name = str(field_name)

    assert 'related_model' not in field_attrs, \
           ('related_model cannot be passed in field_attrs when calling '
            'create_field(). Pass the related_model parameter instead.')

    if related_model:
        related_app_name, related_model_name = related_model.split('.')
        related_model_sig = (
            project_sig
            .get_app_sig(related_app_name, required=True)
            .get_model_sig(related_model_name, required=True)
        )
        to = MockModel(project_sig=project_sig,
                       app_name=related_app_name,
                       model_name=related_model_name,
                       model_sig=related_model_sig,
                       stub=True)

        if (issubclass(field_type, models.ForeignKey) and
            hasattr(models, 'CASCADE') and
            'on_delete' not in field_attrs):
            # Starting in Django 2.0, on_delete is a requirement for
            # ForeignKeys. If not provided in the signature, we want to
            # default this to CASCADE, which is the value that Django
            # previously defaulted to.
            field_attrs = dict({
                'on_delete': models.CASCADE,
            }, **field_attrs)

        field = field_type(to, name=field_name, **field_attrs)
    else:
        field = field_type(name=field_name, **field_attrs)

    if (issubclass(field_type, models.ManyToManyField) and
        parent_model is not None):
        # Starting in Django 1.2, a ManyToManyField must have a through
        # model defined. This will be set internally to an auto-created
        # model if one isn't specified. We have to fake that model.
        through_model = field_attrs.get('through_model')
        through_model_sig = None

        if through_model:
            through_app_name, through_model_name = through_model.split('.')
            through_model_sig = (
                project_sig
                .get_app_sig(through_app_name)
                .get_model_sig(through_model_name)
            )
        elif hasattr(field, '_get_m2m_attr'):
            # Django >= 1.2
            remote_field = get_remote_field(field)
            remote_field_model = get_remote_field_model(remote_field)

            to_field_name = remote_field_model._meta.object_name.lower()

            if (remote_field_model == RECURSIVE_RELATIONSHIP_CONSTANT or
                to_field_name == parent_model._meta.object_name.lower()):
                from_field_name = 'from_%s' % to_field_name
                to_field_name = 'to_%s' % to_field_name
            else:
                from_field_name = parent_model._meta.object_name.lower()

            # This corresponds to the signature in
            # related.create_many_to_many_intermediary_model
            through_app_name = parent_model.app_name
            through_model_name = '%s_%s' % (parent_model._meta.object_name,
                                            field.name),

            through_model_sig = ModelSignature(
                model_name=through_model_name,
                table_name=field._get_m2m_db_table(parent_model._meta),
                pk_column='id',
                unique_together=[(from_field_name, to_field_name)])

            # 'id' field
            through_model_sig.add_field_sig(FieldSignature(
                field_name='id',
                field_type=models.AutoField,
                field_attrs={
                    'primary_key': True,
                }))

            # 'from' field
            through_model_sig.add_field_sig(FieldSignature(
                field_name=from_field_name,
                field_type=models.ForeignKey,
                field_attrs={
                    'related_name': '%s+' % through_model_name,
                },
                related_model='%s.%s' % (parent_model.app_name,
                                         parent_model._meta.object_name)))

            # 'to' field
            through_model_sig.add_field_sig(FieldSignature(
                field_name=to_field_name,
                field_type=models.ForeignKey,
                field_attrs={
                    'related_name': '%s+' % through_model_name,
                },
                related_model=related_model))

            field.auto_created = True

        if through_model_sig:
            through = MockModel(project_sig=project_sig,
                                app_name=through_app_name,
                                model_name=through_model_name,
                                model_sig=through_model_sig,
                                auto_created=not through_model,
                                managed=not through_model)
            get_remote_field(field).through = through

        field.m2m_db_table = partial(field._get_m2m_db_table,
                                     parent_model._meta)
        field.set_attributes_from_rel()

    field.set_attributes_from_name(field_name)

    # Needed in Django >= 1.7, for index building.
    field.model = parent_model

    return field


class MockMeta(object):
    """A mock of a models Options object, based on the model signature.

    This emulates the standard Meta class for a model, storing data and
    providing mock functions for setting up fields from a signature.
    """

    def __init__(self, project_sig, app_name, model_name, model_sig,
                 managed=False, auto_created=False):
        """Initialize the meta instance.

        Args:
            project_sig (django_evolution.signature.ProjectSignature):
                The project's schema signature.

            app_name (unicode):
                The name of the Django application owning the model.

            model_name (unicode):
                The name of the model.

            model_sig (dict):
                The model's schema signature.

            managed (bool, optional):
                Whether this represents a model managed internally by Django,
                rather than a developer-created model.

            auto_created (bool, optional):
                Whether this represents an auto-created model (such as an
                intermediary many-to-many model).
        """
        assert model_sig, \
            'model_sig for %s.%s cannot be None!' % (app_name, model_name)

        self.object_name = model_name
        self.app_label = app_name
        self.meta = {
            'auto_created': auto_created,
            'concrete_model': None,
            'constraints': [],
            'db_table': model_sig.table_name,
            'db_table_comment': model_sig.db_table_comment,
            'db_tablespace': model_sig.db_tablespace,
            'has_auto_field': None,
            'index_together': model_sig.index_together,
            'indexes': [],
            'managed': managed,
            'order_with_respect_to': None,
            'pk_column': model_sig.pk_column,
            'swapped': False,
            'unique_together': model_sig.unique_together,
        }

        if hasattr(models, 'Index'):
            self.meta['indexes'] = [
                models.Index(name=index_sig.name,
                             fields=index_sig.fields or (),
                             *(index_sig.expressions or ()),
                             **index_sig.attrs)
                for index_sig in model_sig.index_sigs
            ]

        self._fields = OrderedDict()
        self._many_to_many = OrderedDict()
        self.abstract = False
        self.managed = True
        self.proxy = False
        self.parents = []
        self.private_fields = []
        self._model_sig = model_sig
        self._project_sig = project_sig

    @property
    def local_fields(self):
        """A list of all local fields on the model."""
        return list(six.itervalues(self._fields))

    fields = local_fields

    @property
    def local_many_to_many(self):
        """A list of all local Many-to-Many fields on the model."""
        return list(six.itervalues(self._many_to_many))

    @property
    def label(self):
        """A label shown for this model.

        Version Added:
            2.2
        """
        # This implementation is consistent with that in Django 1.9+.
        return '%s.%s' % (self.app_label, self.object_name)

    def setup_fields(self, model, stub=False):
        """Set up the fields listed in the model's signature.

        For each field in the model signature's list of fields, a field
        instance will be created and stored in :py:attr:`_fields` or
        :py:attr:`_many_to_many` (depending on the type of field).

        Some fields (for instance, a field representing a primary key) may
        also influence the attributes on this model.

        Args:
            model (cls):
                The model class owning this meta instance. This must be a
                subclass of :py:class:`django.db.models.Model`.

            stub (bool, optional):
                If provided, only a primary key will be set up. This is used
                internally when creating relationships between models and
                fields in order to prevent recursive relationships.
        """
        self.meta['model'] = model

        # Django 3.1 documents that the concrete class is the model at the
        # end of a proxy_for_model chain. In our case, it should always be
        # our mock model.
        self.meta['concrete_model'] = model

        for field_sig in self._model_sig.field_sigs:
            primary_key = field_sig.get_attr_value('primary_key')

            if not stub or primary_key:
                field = create_field(project_sig=self._project_sig,
                                     field_name=field_sig.field_name,
                                     field_type=field_sig.field_type,
                                     field_attrs=field_sig.field_attrs,
                                     parent_model=model,
                                     related_model=field_sig.related_model)

                if isinstance(field, models.AutoField):
                    self.meta['has_auto_field'] = True
                    self.meta['auto_field'] = field

                if isinstance(field, models.ManyToManyField):
                    self._many_to_many[field.name] = field
                else:
                    self._fields[field.name] = field

                field.set_attributes_from_name(field.name)

                if primary_key:
                    self.pk = field

    def __getattr__(self, name):
        """Return an attribute from the meta class.

        This will look up the attribute from the correct location, depending
        on the attribute being accessed.

        Args:
            name (unicode):
                The attribute name.

        Returns:
            object:
            The attribute value.
        """
        if name == 'model_name':
            return self.object_name

        return self.meta[name]

    def get_field(self, name):
        """Return a field with the given name.

        Args:
            name (unicode):
                The name of the field.

        Returns:
            django.db.models.Field:
            The field with the given name.

        Raises:
            django.db.models.fields.FieldDoesNotExist:
                The field could not be found.
        """
        try:
            return self._fields[name]
        except KeyError:
            try:
                return self._many_to_many[name]
            except KeyError:
                raise FieldDoesNotExist('%s has no field named %r' %
                                        (self.object_name, name))

    def get_field_by_name(self, name):
        """Return information on a field with the given name.

        This is a stub that provides only basic functionality. It will
        return information for a field with the given name, with most
        data hard-coded.

        Args:
            name (unicode):
                The name of the field.

        Returns:
            tuple:
            A tuple of information for the following:

            * The field instance (:py:class:`django.db.models.Field`)
            * The model (hard-coded as ``None``)
            * Whether this field is owned by this model (hard-coded as
              ``True``)
            * Whether this is for a many-to-many relationship (hard-coded as
              ``None``)

        Raises:
            django.db.models.fields.FieldDoesNotExist:
                The field could not be found.
        """
        return (self.get_field(name), None, True, None)


class MockModel(object):
    """A mock model.

    This replicates some of the state and functionality of a model for
    use when generating, reading, or mutating signatures.
    """

    def __init__(self, project_sig, app_name, model_name, model_sig,
                 auto_created=False, managed=False, stub=False, db_name=None):
        """Initialize the model.

        Args:
            project_sig (django_evolution.signature.ProjectSignature):
                The project's schema signature.

            app_name (unicode):
                The name of the Django app that owns the model.

            model_name (unicode):
                The name of the model.

            model_sig (dict):
                The model's schema signature.

            auto_created (bool, optional):
                Whether this represents an auto-created model (such as an
                intermediary many-to-many model).

            managed (bool, optional):
                Whether this represents a model managed internally by Django,
                rather than a developer-created model.

            stub (bool, optional):
                Whether this is a stub model. This is used internally to
                create models that only contain a primary key field and no
                others, for use when dealing with circular relationships.

            db_name (unicode, optional):
                The name of the database where the model would be read from or
                written to.
        """
        assert model_sig, \
            'model_sig for %s.%s cannot be None!' % (app_name, model_name)

        self.app_name = app_name
        self.model_name = model_name
        self._meta = MockMeta(project_sig=project_sig,
                              app_name=app_name,
                              model_name=model_name,
                              model_sig=model_sig,
                              auto_created=auto_created,
                              managed=managed)
        self._meta.setup_fields(self, stub)

        self._state = ModelState()
        self._state.db = db_name

    def __repr__(self):
        """Return a string representation of the model.

        Returns:
            unicode:
            A string representation of the model.
        """
        return '<MockModel for %s.%s>' % (self.app_name, self.model_name)

    def __hash__(self):
        """Return a hash of the model instance.

        This is used to allow the model instance to be used as a key in a
        dictionary.

        Django would return a hash of the primary key's value, but that's not
        necessary for our needs, and we don't have field values in most mock
        models.

        Returns:
            int:
            The hash of the model.
        """
        return hash(id(self))

    def __eq__(self, other):
        """Return whether two mock models are equal.

        Both are considered equal if they're both mock models with the same
        app name and model name.

        Args:
            other (MockModel):
                The other mock model to compare to.

        Returns:
            bool:
            ``True`` if both are equal. ``False`` if they are not.
        """
        # For our purposes, we don't want to appear equal to "self".
        # Really, Django 1.2 should be checking if this is a string before
        # doing this comparison,
        return (isinstance(other, MockModel) and
                self.app_name == other.app_name and
                self.model_name == other.model_name)


class MockRelated(object):
    """A mock RelatedObject for relation fields.

    This replicates some of the state and functionality of
    :py:class:`django.db.models.related.RelatedObject`, used for generating
    signatures and applying mutations.
    """

    def __init__(self, related_model, model, field):
        """Initialize the object.

        Args:
            related_model (MockModel):
                The mock model on the other end of the relation.

            model (MockModel):
                The mock model on this end of the relation.

            field (django.db.models.Field):
                The field owning the relation.
        """
        self.parent_model = related_model
        self.model = model
        self.opts = model._meta
        self.field = field
        self.name = '%s:%s' % (model.app_name, model.model_name)
        self.var_name = model.model_name.lower()
