from __future__ import unicode_literals


from django.contrib import admin
from django_evolution.models import Version, Evolution


admin.site.register(Version)
admin.site.register(Evolution)
