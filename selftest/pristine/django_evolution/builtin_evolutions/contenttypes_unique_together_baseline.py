from __future__ import unicode_literals

from django_evolution.mutations import ChangeMeta


MUTATIONS = [
    ChangeMeta('ContentType', 'unique_together', [('app_label', 'model')]),
]
