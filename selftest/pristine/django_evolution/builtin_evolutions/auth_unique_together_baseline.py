from __future__ import unicode_literals

from django_evolution.mutations import ChangeMeta


MUTATIONS = [
    ChangeMeta('Permission', 'unique_together',
               [('content_type', 'codename')]),
]
