from __future__ import unicode_literals

from django_evolution.mutations import DeleteModel


MUTATIONS = [
    DeleteModel('Message')
]
