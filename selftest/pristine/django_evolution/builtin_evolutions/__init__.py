from __future__ import unicode_literals


BUILTIN_SEQUENCES = {
    'django.contrib.admin': ['admin_move_to_migrations'],
    'django.contrib.auth': [],
    'django.contrib.contenttypes': [],
    'django.contrib.flatpages': ['flatpages_move_to_migrations'],
    'django.contrib.redirects': ['redirects_move_to_migrations'],
    'django.contrib.sessions': [],
    'django.contrib.sites': ['sites_move_to_migrations'],
}


# Starting in Django 1.3 alpha, Session.expire_date has a db_index set.
# This needs to be reflected in the evolutions. Rather than hard-coding
# a specific version to check for, we check the actual value in the field.
try:
    from django.contrib.sessions.models import Session

    if Session._meta.get_field('expire_date').db_index:
        BUILTIN_SEQUENCES['django.contrib.sessions'].append(
            'session_expire_date_db_index')
except RuntimeError:
    # The model was not included in INSTALLED_APPS, most likely. Skip it.
    pass

# Starting in Django 1.4 alpha, the Message model was deleted.
try:
    from django.contrib.auth.models import Message
except ImportError:
    BUILTIN_SEQUENCES['django.contrib.auth'].append('auth_delete_message')
except RuntimeError:
    # The model was not included in INSTALLED_APPS, most likely. Skip it.
    pass


# Starting with Django Evolution 0.7.0, we explicitly need ChangeMetas for
# unique_together.
BUILTIN_SEQUENCES['django.contrib.auth'] += [
    'auth_unique_together_baseline',
    'auth_move_to_migrations',
]
BUILTIN_SEQUENCES['django.contrib.contenttypes'] += [
    'contenttypes_unique_together_baseline',
    'contenttypes_move_to_migrations',
]
BUILTIN_SEQUENCES['django.contrib.sessions'] += [
    'sessions_move_to_migrations',
]
