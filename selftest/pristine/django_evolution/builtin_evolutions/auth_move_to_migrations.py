from __future__ import unicode_literals

from django_evolution.mutations import MoveToDjangoMigrations


MUTATIONS = [
    MoveToDjangoMigrations(),
]
