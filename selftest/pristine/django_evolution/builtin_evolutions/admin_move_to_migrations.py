"""Marks django.contrib.admin as managed by Django migrations."""

from __future__ import unicode_literals

from django_evolution.mutations import MoveToDjangoMigrations


MUTATIONS = [
    MoveToDjangoMigrations(),
]
