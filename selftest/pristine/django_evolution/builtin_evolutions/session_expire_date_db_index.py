from __future__ import unicode_literals

from django_evolution.mutations import ChangeField


MUTATIONS = [
    ChangeField('Session', 'expire_date', initial=None, db_index=True)
]
