"""Compatibility functions for string translation.

Version Added:
    2.2
"""

from __future__ import unicode_literals

import django

if django.VERSION[:2] >= (2, 0):
    from django.utils.translation import gettext, gettext_lazy, ngettext
else:
    from django.utils.translation import (ugettext as gettext,
                                          ugettext_lazy as gettext_lazy,
                                          ungettext as ngettext)


__all__ = [
    'gettext',
    'gettext_lazy',
    'ngettext',
]
