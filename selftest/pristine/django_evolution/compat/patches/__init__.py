"""Compatibility patchess for Python and Django versions."""

from __future__ import unicode_literals

import logging
from importlib import import_module


logger = logging.getLogger(__name__)


#: List of patches that can be applied.
patches = [
    'python3_10_collection_imports',
    'django1_8__1_10_mysql_preserve_db_index',
    'django2_0_quote_unique_index_name',
    'mysqlclient_django_pre_2_encoder_bytes',
    'sqlite_legacy_alter_table',
]


_patches_applied = False


def apply_patches():
    """Apply any necessary patches.

    This will check which patches are required, applying them to the
    runtime environment.
    """
    global _patches_applied

    if not _patches_applied:
        for patch_name in patches:
            patch = import_module('%s.%s' % (__name__, patch_name))

            try:
                needs_patch = patch.needs_patch()
            except Exception as e:
                logging.exception(
                    'Error checking if Django Evolution compatibility patch '
                    '"%s" needs to apply: %s',
                    patch_name, e)
                continue

            if needs_patch:
                try:
                    patch.apply_patch()
                except Exception as e:
                    logging.exception(
                        'Error applying Django Evolution compatibility  '
                        'patch "%s": %s',
                        patch_name, e)

        _patches_applied = True
