"""Patch to bring back deprecated classes in the collections module.

The :py:mod:`collections` module had several classes that were moved into
:py:mod:`collections.abc`. The old imports were deprecated and then removed
in Python 3.10. Django 2.0 and older still used these old locations, so on
those versions, :py:mod:`collections` must be patched.

Version Added:
    2.1.3
"""

from __future__ import unicode_literals

import collections

import django


def needs_patch():
    """Return whether the collections module needs to be patched.

    This will check if the :py:mod:`collections` module has one of the
    deprecated classes removed in Python 3.10. If it does not, the patch
    will be applied.

    Returns:
        bool:
        ``True`` if the module needs to be patched. ``False`` if it does not.
    """
    return (django.VERSION[:2] <= (2, 0) and
            not hasattr(collections, 'Callable'))


def apply_patch():
    """Apply a patch to the collections module.

    This will patch the :py:mod:`collections` module to bring back many of the
    imports that were removed in Python 3.10.
    """
    collections.Callable = collections.abc.Callable
    collections.Iterable = collections.abc.Iterable
    collections.Iterator = collections.abc.Iterator
    collections.Mapping = collections.abc.Mapping
    collections.MutableMapping = collections.abc.MutableMapping
    collections.Sequence = collections.abc.Sequence
