"""Patch to add missing unique index name quoting on Django 2.0.x."""

from __future__ import unicode_literals

try:
    # Django >= 2.0
    from django.db.backends.base.schema import BaseDatabaseSchemaEditor
    from django.db.backends.ddl_references import IndexName
except ImportError:
    # Django < 1.7
    BaseDatabaseSchemaEditor = None
    IndexName = None


def needs_patch():
    """Return whether the unique index name generation needs patching.

    It will need patching if the SchemaEditor has a ``_create_unique_sql``
    method (added on Django 2.0.x, removed for 2.1.0).

    Returns:
        bool:
        ``True`` if the backend needs to be patched. ``False`` if it does not.
    """
    return (IndexName is not None and
            hasattr(BaseDatabaseSchemaEditor, '_create_unique_sql'))


def apply_patch():
    """Apply a patch to the base schema editor.

    This will override the ``_create_unique_sql()`` method, which generates
    the SQL for a ``CREATE UNIQUE INDEX`` statement, forcing the index name
    to be quoted. This is common across all Django database backends.
    """
    assert BaseDatabaseSchemaEditor is not None

    def _create_unique_sql(self, *args, **kwargs):
        from django.db.backends.ddl_references import IndexName

        statement = orig_create_unique_sql(self, *args, **kwargs)

        if statement is not None:
            index_name = statement.parts['name']

            if (isinstance(index_name, IndexName) and
                index_name.create_index_name == self._create_index_name):
                # The result will be unquoted. Let's quote it.
                index_name.create_index_name = lambda *args, **kwargs: \
                    self.quote_name(self._create_index_name(*args, **kwargs))

        return statement

    orig_create_unique_sql = BaseDatabaseSchemaEditor._create_unique_sql
    BaseDatabaseSchemaEditor._create_unique_sql = _create_unique_sql
