"""Patch to prevent db_index on ForeignKey fields from becoming reset on MySQL.

This applies to Django 1.8 through 1.10. These versions have code that is
supposed to *temporarily* unset ``db_index`` on a
:py:class:`~django.db.models.ForeignKey`, in order to prevent some SQL from
being generated, but it never restores this flag. This prevents us from storing
the right values.

This patch backs up the old values and restores them.
"""

from __future__ import unicode_literals

import django

try:
    # Django >= 1.7
    from django.db.backends.mysql.schema import DatabaseSchemaEditor
except ImportError:
    # Django < 1.7
    DatabaseSchemaEditor = None


def needs_patch():
    """Return whether the MySQL model indexes code needs to be patched.

    It will need patching if the running on Django 1.8 through 1.10. There
    isn't a more specific check we can put in place.

    Returns:
        bool:
        ``True`` if the backend needs to be patched. ``False`` if it does not.
    """
    return (1, 8) <= django.VERSION[:2] <= (1, 10)


def apply_patch():
    """Apply a patch to the base schema editor.

    This will override the ``_model_indexes_sql()`` method, making note of any
    :py:class:`~django.db.models.ForeignKey` fields that have ``db_index=True``
    set (the default), and restoring their values.
    """
    assert DatabaseSchemaEditor is not None

    def _model_indexes_sql(self, model):
        meta = model._meta
        db_indexed_fields = set(
            field.name
            for field in meta.local_fields
            if field.db_index and field.get_internal_type() == 'ForeignKey'
        )

        try:
            return orig_model_indexes_sql(self, model)
        finally:
            for field_name in db_indexed_fields:
                meta.get_field(field_name).db_index = True

    orig_model_indexes_sql = DatabaseSchemaEditor._model_indexes_sql
    DatabaseSchemaEditor._model_indexes_sql = _model_indexes_sql
