"""Patch to fix mysqlclient 2.1+ compatibility with Django 1.11 and older.

Django 1.11 and older would attempt to modify ``mysqlclient``'s internal type
conversion map after construction, mapping their safe versions of strings and
bytes to the converters.

This broke on Python 3, due to ``bytes`` no longer being implicitly in the
conversion map (as it was no longer the same as a string). While the
``mysqlclient`` developers worked around this in a point release, they removed
that support in 2.1.

This patch adds the missing entry to the initial map that Django provides.
Django still uses the wrong approach, but won't fail with a key lookup on
``bytes``.

Version Added:
    2.1.3
"""

from __future__ import unicode_literals


def needs_patch():
    """Return whether the MySQL backend needs patching.

    It will need patching if using mysqlclient >= 2.1 and Django <= 1.11.

    Returns:
        bool:
        ``True`` if the backend needs to be patched. ``False`` if it does not.
    """
    import django

    if django.VERSION[0] >= 2:
        # This was fixed in Django 2.0.
        return False

    # Make sure that both the MySQL backend and the MySQL version information
    # can be loaded.
    try:
        import django.db.backends.mysql.base
    except Exception:
        # There's no MySQL support to patch, or something unusual went wrong.
        return False

    return True


def apply_patch():
    """Apply a patch to the MySQL database backend.

    This will add the ``bytes`` conversion to Django's initial conversion map,
    so that it can find it when later altering the database connection's
    resulting map.
    """
    from django.db.backends.mysql.base import django_conversions

    django_conversions[bytes] = bytes
