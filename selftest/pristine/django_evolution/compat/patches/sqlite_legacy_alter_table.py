"""Patch to enable SQLite Legacy Alter Table support."""

from __future__ import unicode_literals

import sqlite3

import django


def needs_patch():
    """Return whether the SQLite backend needs patching.

    It will need patching if using Django 1.11 through 2.1.4 while using
    SQLite3 v2.26.

    Returns:
        bool:
        ``True`` if the backend needs to be patched. ``False`` if it does not.
    """
    return (sqlite3.sqlite_version_info > (2, 26, 0) and
            (1, 11) <= django.VERSION < (2, 1, 5))


def apply_patch():
    """Apply a patch to the SQLite database backend.

    This will turn on SQLite's ``legacy_alter_table`` mode on when modifying
    the schema, which is needed in order to successfully allow Django to make
    table modifications.
    """
    from django.db.backends.sqlite3.base import DatabaseWrapper

    class DatabaseSchemaEditor(DatabaseWrapper.SchemaEditorClass):
        def __enter__(self):
            with self.connection.cursor() as c:
                c.execute('PRAGMA legacy_alter_table = ON')

            return super(DatabaseSchemaEditor, self).__enter__()

        def __exit__(self, *args, **kwargs):
            super(DatabaseSchemaEditor, self).__exit__(*args, **kwargs)

            with self.connection.cursor() as c:
                c.execute('PRAGMA legacy_alter_table = OFF')

    DatabaseWrapper.SchemaEditorClass = DatabaseSchemaEditor
