"""Compatibility imports for data structures.

This provides imports for data structures that are needed internally, to
provide compatibility with different versions of Django.
"""

from __future__ import unicode_literals

try:
    from collections import OrderedDict
except ImportError:
    # Only available on Django < 1.9.
    from django.utils.datastructures import SortedDict as OrderedDict


__all__ = [
    'OrderedDict',
]
