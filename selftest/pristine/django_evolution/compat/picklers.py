"""Picklers for working with serialized data."""

from __future__ import unicode_literals

try:
    # Python 3.x
    from pickle import _Unpickler as Unpickler
except ImportError:
    # Python 2.x
    from pickle import Unpickler

from django_evolution.compat.datastructures import OrderedDict
from django_evolution.conf import django_evolution_settings


class SortedDict(dict):
    """Compatibility for unpickling a SortedDict.

    Old signatures may use an old Django ``SortedDict`` structure, which does
    not exist in modern versions. This changes any construction of this
    data structure into a :py:class:`collections.OrderedDict`.
    """

    def __new__(cls, *args, **kwargs):
        """Construct an instance of the class.

        Args:
            *args (tuple):
                Positional arguments to pass to the constructor.

            **kwargs (dict):
                Keyword arguments to pass to the constructor.

        Returns:
            collections.OrderedDict:
            The new instance.
        """
        return OrderedDict.__new__(cls, *args, **kwargs)


class DjangoCompatUnpickler(Unpickler):
    """Unpickler compatible with changes to Django class/module paths.

    This provides compatibility across Django versions for various field types,
    updating referenced module paths for fields to a standard location so
    that the fields can be located on all Django versions.
    """

    def find_class(self, module, name):
        """Return the class for a given module and class name.

        If looking up a class from ``django.db.models.fields``, the class will
        instead be looked up from ``django.db.models``, fixing lookups on
        some Django versions.

        Args:
            module (unicode):
                The module path.

            name (unicode):
                The class name.

        Returns:
            type:
            The resulting class.

        Raises:
            AttributeError:
                The class could not be found in the module.
        """
        if module == 'django.utils.datastructures' and name == 'SortedDict':
            return SortedDict
        elif module == 'django.db.models.fields':
            module = 'django.db.models'
        else:
            renamed_types = django_evolution_settings.RENAMED_FIELD_TYPES
            field_type = '%s.%s' % (module, name)

            if field_type in renamed_types:
                module, name = renamed_types[field_type].rsplit('.', 1)

        return Unpickler.find_class(self, module, name)
