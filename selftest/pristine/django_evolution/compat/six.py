# Copyright (c) 2010-2020 Benjamin Peterson
#
# Permission is hereby granted, free of charge, to any person obtaining a copy
# of this software and associated documentation files (the "Software"), to deal
# in the Software without restriction, including without limitation the rights
# to use, copy, modify, merge, publish, distribute, sublicense, and/or sell
# copies of the Software, and to permit persons to whom the Software is
# furnished to do so, subject to the following conditions:
#
# The above copyright notice and this permission notice shall be included in all
# copies or substantial portions of the Software.
#
# THE SOFTWARE IS PROVIDED "AS IS", WITHOUT WARRANTY OF ANY KIND, EXPRESS OR
# IMPLIED, INCLUDING BUT NOT LIMITED TO THE WARRANTIES OF MERCHANTABILITY,
# FITNESS FOR A PARTICULAR PURPOSE AND NONINFRINGEMENT. IN NO EVENT SHALL THE
# AUTHORS OR COPYRIGHT HOLDERS BE LIABLE FOR ANY CLAIM, DAMAGES OR OTHER
# LIABILITY, WHETHER IN AN ACTION OF CONTRACT, TORT OR OTHERWISE, ARISING FROM,
# OUT OF OR IN CONNECTION WITH THE SOFTWARE OR THE USE OR OTHER DEALINGS IN THE
# SOFTWARE.

"""Utilities for writing code that runs on Python 2 and 3"""

from __future__ import absolute_import

import functools
import itertools
import operator
import sys
import types

__author__ = "Benjamin Peterson <benjamin@python.org>"
__version__ = "1.16.0"


# Useful for very coarse version differentiation.
PY2 = sys.version_info[0] == 2
PY3 = sys.version_info[0] == 3
PY34 = sys.version_info[0:2] >= (3, 4)

if PY3:
    string_types = str,
    integer_types = int,
    class_types = type,
    text_type = str
    binary_type = bytes

    MAXSIZE = sys.maxsize
else:
    string_types = basestring,
    integer_types = (int, long)
    class_types = (type, types.ClassType)
    text_type = unicode
    binary_type = str

    if sys.platform.startswith("java"):
        # Jython always uses 32 bits.
        MAXSIZE = int((1 << 31) - 1)
    else:
        # It's possible to have sizeof(long) != sizeof(Py_ssize_t).
        class X(object):

            def __len__(self):
                return 1 << 31
        try:
            len(X())
        except OverflowError:
            # 32-bit
            MAXSIZE = int((1 << 31) - 1)
        else:
            # 64-bit
            MAXSIZE = int((1 << 63) - 1)
        del X

if PY34:
    from importlib.util import spec_from_loader
else:
    spec_from_loader = None


def _add_doc(func, doc):
    """Add documentation to a function."""
    func.__doc__ = doc


def _import_module(name):
    """Import module, returning the module after the last dot."""
    __import__(name)
    return sys.modules[name]


class _LazyDescr(object):

    def __init__(self, name):
        self.name = name

    def __get__(self, obj, tp):
        result = self._resolve()
        setattr(obj, self.name, result)  # Invokes __set__.
        try:
            # This is a bit ugly, but it avoids running this again by
            # removing this descriptor.
            delattr(obj.__class__, self.name)
        except AttributeError:
            pass
        return result


class MovedModule(_LazyDescr):

    def __init__(self, name, old, new=None):
        super(MovedModule, self).__init__(name)
        if PY3:
            if new is None:
                new = name
            self.mod = new
        else:
            self.mod = old

    def _resolve(self):
        return _import_module(self.mod)

    def __getattr__(self, attr):
        _module = self._resolve()
        value = getattr(_module, attr)
        setattr(self, attr, value)
        return value


class _LazyModule(types.ModuleType):

    def __init__(self, name):
        super(_LazyModule, self).__init__(name)
        self.__doc__ = self.__class__.__doc__

    def __dir__(self):
        attrs = ["__doc__", "__name__"]
        attrs += [attr.name for attr in self._moved_attributes]
        return attrs

    # Subclasses should override this
    _moved_attributes = []


class MovedAttribute(_LazyDescr):

    def __init__(self, name, old_mod, new_mod, old_attr=None, new_attr=None):
        super(MovedAttribute, self).__init__(name)
        if PY3:
            if new_mod is None:
                new_mod = name
            self.mod = new_mod
            if new_attr is None:
                if old_attr is None:
                    new_attr = name
                else:
                    new_attr = old_attr
            self.attr = new_attr
        else:
            self.mod = old_mod
            if old_attr is None:
                old_attr = name
            self.attr = old_attr

    def _resolve(self):
        module = _import_module(self.mod)
        return getattr(module, self.attr)


class _SixMetaPathImporter(object):

    """
    A meta path importer to import six.moves and its submodules.

    This class implements a PEP302 finder and loader. It should be compatible
    with Python 2.5 and all existing versions of Python3
    """

    def __init__(self, six_module_name):
        self.name = six_module_name
        self.known_modules = {}

    def _add_module(self, mod, *fullnames):
        for fullname in fullnames:
            self.known_modules[self.name + "." + fullname] = mod

    def _get_module(self, fullname):
        return self.known_modules[self.name + "." + fullname]

    def find_module(self, fullname, path=None):
        if fullname in self.known_modules:
            return self
        return None

    def find_spec(self, fullname, path, target=None):
        if fullname in self.known_modules:
            return spec_from_loader(fullname, self)
        return None

    def __get_module(self, fullname):
        try:
            return self.known_modules[fullname]
        except KeyError:
            raise ImportError("This loader does not know module " + fullname)

    def load_module(self, fullname):
        try:
            # in case of a reload
            return sys.modules[fullname]
        except KeyError:
            pass
        mod = self.__get_module(fullname)
        if isinstance(mod, MovedModule):
            mod = mod._resolve()
        else:
            mod.__loader__ = self
        sys.modules[fullname] = mod
        return mod

    def is_package(self, fullname):
        """
        Return true, if the named module is a package.

        We need this method to get correct spec objects with
        Python 3.4 (see PEP451)
        """
        return hasattr(self.__get_module(fullname), "__path__")

    def get_code(self, fullname):
        """Return None

        Required, if is_package is implemented"""
        self.__get_module(fullname)  # eventually raises ImportError
        return None
    get_source = get_code  # same as get_code

    def create_module(self, spec):
        return self.load_module(spec.name)

    def exec_module(self, module):
        pass

_importer = _SixMetaPathImporter(__name__)


class _MovedItems(_LazyModule):

    """Lazy loading of moved objects"""
    __path__ = []  # mark as package


_moved_attributes = [
    MovedAttribute("cStringIO", "cStringIO", "io", "StringIO"),
    MovedAttribute("filter", "itertools", "builtins", "ifilter", "filter"),
    MovedAttribute("filterfalse", "itertools", "itertools", "ifilterfalse", "filterfalse"),
    MovedAttribute("input", "__builtin__", "builtins", "raw_input", "input"),
    MovedAttribute("intern", "__builtin__", "sys"),
    MovedAttribute("map", "itertools", "builtins", "imap", "map"),
    MovedAttribute("getcwd", "os", "os", "getcwdu", "getcwd"),
    MovedAttribute("getcwdb", "os", "os", "getcwd", "getcwdb"),
    MovedAttribute("getoutput", "commands", "subprocess"),
    MovedAttribute("range", "__builtin__", "builtins", "xrange", "range"),
    MovedAttribute("reload_module", "__builtin__", "importlib" if PY34 else "imp", "reload"),
    MovedAttribute("reduce", "__builtin__", "functools"),
    MovedAttribute("shlex_quote", "pipes", "shlex", "quote"),
    MovedAttribute("StringIO", "StringIO", "io"),
    MovedAttribute("UserDict", "UserDict", "collections"),
    MovedAttribute("UserList", "UserList", "collections"),
    MovedAttribute("UserString", "UserString", "collections"),
    MovedAttribute("xrange", "__builtin__", "builtins", "xrange", "range"),
    MovedAttribute("zip", "itertools", "builtins", "izip", "zip"),
    MovedAttribute("zip_longest", "itertools", "itertools", "izip_longest", "zip_longest"),
    MovedModule("builtins", "__builtin__"),
    MovedModule("configparser", "ConfigParser"),
    MovedModule("collections_abc", "collections", "collections.abc" if sys.version_info >= (3, 3) else "collections"),
    MovedModule("copyreg", "copy_reg"),
    MovedModule("dbm_gnu", "gdbm", "dbm.gnu"),
    MovedModule("dbm_ndbm", "dbm", "dbm.ndbm"),
    MovedModule("_dummy_thread", "dummy_thread", "_dummy_thread" if sys.version_info < (3, 9) else "_thread"),
    MovedModule("http_cookiejar", "cookielib", "http.cookiejar"),
    MovedModule("http_cookies", "Cookie", "http.cookies"),
    MovedModule("html_entities", "htmlentitydefs", "html.entities"),
    MovedModule("html_parser", "HTMLParser", "html.parser"),
    MovedModule("http_client", "httplib", "http.client"),
    MovedModule("email_mime_base", "email.MIMEBase", "email.mime.base"),
    MovedModule("email_mime_image", "email.MIMEImage", "email.mime.image"),
    MovedModule("email_mime_multipart", "email.MIMEMultipart", "email.mime.multipart"),
    MovedModule("email_mime_nonmultipart", "email.MIMENonMultipart", "email.mime.nonmultipart"),
    MovedModule("email_mime_text", "email.MIMEText", "email.mime.text"),
    MovedModule("BaseHTTPServer", "BaseHTTPServer", "http.server"),
    MovedModule("CGIHTTPServer", "CGIHTTPServer", "http.server"),
    MovedModule("SimpleHTTPServer", "SimpleHTTPServer", "http.server"),
    MovedModule("cPickle", "cPickle", "pickle"),
    MovedModule("queue", "Queue"),
    MovedModule("reprlib", "repr"),
    MovedModule("socketserver", "SocketServer"),
    MovedModule("_thread", "thread", "_thread"),
    MovedModule("tkinter", "Tkinter"),
    MovedModule("tkinter_dialog", "Dialog", "tkinter.dialog"),
    MovedModule("tkinter_filedialog", "FileDialog", "tkinter.filedialog"),
    MovedModule("tkinter_scrolledtext", "ScrolledText", "tkinter.scrolledtext"),
    MovedModule("tkinter_simpledialog", "SimpleDialog", "tkinter.simpledialog"),
    MovedModule("tkinter_tix", "Tix", "tkinter.tix"),
    MovedModule("tkinter_ttk", "ttk", "tkinter.ttk"),
    MovedModule("tkinter_constants", "Tkconstants", "tkinter.constants"),
    MovedModule("tkinter_dnd", "Tkdnd", "tkinter.dnd"),
    MovedModule("tkinter_colorchooser", "tkColorChooser",
                "tkinter.colorchooser"),
    MovedModule("tkinter_commondialog", "tkCommonDialog",
                "tkinter.commondialog"),
    MovedModule("tkinter_tkfiledialog", "tkFileDialog", "tkinter.filedialog"),
    MovedModule("tkinter_font", "tkFont", "tkinter.font"),
    MovedModule("tkinter_messagebox", "tkMessageBox", "tkinter.messagebox"),
    MovedModule("tkinter_tksimpledialog", "tkSimpleDialog",
                "tkinter.simpledialog"),
    MovedModule("urllib_parse", __name__ + ".moves.urllib_parse", "urllib.parse"),
    MovedModule("urllib_error", __name__ + ".moves.urllib_error", "urllib.error"),
    MovedModule("urllib", __name__ + ".moves.urllib", __name__ + ".moves.urllib"),
    MovedModule("urllib_robotparser", "robotparser", "urllib.robotparser"),
    MovedModule("xmlrpc_client", "xmlrpclib", "xmlrpc.client"),
    MovedModule("xmlrpc_server", "SimpleXMLRPCServer", "xmlrpc.server"),
]
# Add windows specific modules.
if sys.platform == "win32":
    _moved_attributes += [
        MovedModule("winreg", "_winreg"),
    ]

for attr in _moved_attributes:
    setattr(_MovedItems, attr.name, attr)
    if isinstance(attr, MovedModule):
        _importer._add_module(attr, "moves." + attr.name)
del attr

_MovedItems._moved_attributes = _moved_attributes

moves = _MovedItems(__name__ + ".moves")
_importer._add_module(moves, "moves")


class Module_six_moves_urllib_parse(_LazyModule):

    """Lazy loading of moved objects in six.moves.urllib_parse"""


_urllib_parse_moved_attributes = [
    MovedAttribute("ParseResult", "urlparse", "urllib.parse"),
    MovedAttribute("SplitResult", "urlparse", "urllib.parse"),
    MovedAttribute("parse_qs", "urlparse", "urllib.parse"),
    MovedAttribute("parse_qsl", "urlparse", "urllib.parse"),
    MovedAttribute("urldefrag", "urlparse", "urllib.parse"),
    MovedAttribute("urljoin", "urlparse", "urllib.parse"),
    MovedAttribute("urlparse", "urlparse", "urllib.parse"),
    MovedAttribute("urlsplit", "urlparse", "urllib.parse"),
    MovedAttribute("urlunparse", "urlparse", "urllib.parse"),
    MovedAttribute("urlunsplit", "urlparse", "urllib.parse"),
    MovedAttribute("quote", "urllib", "urllib.parse"),
    MovedAttribute("quote_plus", "urllib", "urllib.parse"),
    MovedAttribute("unquote", "urllib", "urllib.parse"),
    MovedAttribute("unquote_plus", "urllib", "urllib.parse"),
    MovedAttribute("unquote_to_bytes", "urllib", "urllib.parse", "unquote", "unquote_to_bytes"),
    MovedAttribute("urlencode", "urllib", "urllib.parse"),
    MovedAttribute("splitquery", "urllib", "urllib.parse"),
    MovedAttribute("splittag", "urllib", "urllib.parse"),
    MovedAttribute("splituser", "urllib", "urllib.parse"),
    MovedAttribute("splitvalue", "urllib", "urllib.parse"),
    MovedAttribute("uses_fragment", "urlparse", "urllib.parse"),
    MovedAttribute("uses_netloc", "urlparse", "urllib.parse"),
    MovedAttribute("uses_params", "urlparse", "urllib.parse"),
    MovedAttribute("uses_query", "urlparse", "urllib.parse"),
    MovedAttribute("uses_relative", "urlparse", "urllib.parse"),
]
for attr in _urllib_parse_moved_attributes:
    setattr(Module_six_moves_urllib_parse, attr.name, attr)
del attr

Module_six_moves_urllib_parse._moved_attributes = _urllib_parse_moved_attributes

_importer._add_module(Module_six_moves_urllib_parse(__name__ + ".moves.urllib_parse"),
                      "moves.urllib_parse", "moves.urllib.parse")


class Module_six_moves_urllib_error(_LazyModule):

    """Lazy loading of moved objects in six.moves.urllib_error"""


_urllib_error_moved_attributes = [
    MovedAttribute("URLError", "urllib2", "urllib.error"),
    MovedAttribute("HTTPError", "urllib2", "urllib.error"),
    MovedAttribute("ContentTooShortError", "urllib", "urllib.error"),
]
for attr in _urllib_error_moved_attributes:
    setattr(Module_six_moves_urllib_error, attr.name, attr)
del attr

Module_six_moves_urllib_error._moved_attributes = _urllib_error_moved_attributes

_importer._add_module(Module_six_moves_urllib_error(__name__ + ".moves.urllib.error"),
                      "moves.urllib_error", "moves.urllib.error")


class Module_six_moves_urllib_request(_LazyModule):

    """Lazy loading of moved objects in six.moves.urllib_request"""


_urllib_request_moved_attributes = [
    MovedAttribute("urlopen", "urllib2", "urllib.request"),
    MovedAttribute("install_opener", "urllib2", "urllib.request"),
    MovedAttribute("build_opener", "urllib2", "urllib.request"),
    MovedAttribute("pathname2url", "urllib", "urllib.request"),
    MovedAttribute("url2pathname", "urllib", "urllib.request"),
    MovedAttribute("getproxies", "urllib", "urllib.request"),
    MovedAttribute("Request", "urllib2", "urllib.request"),
    MovedAttribute("OpenerDirector", "urllib2", "urllib.request"),
    MovedAttribute("HTTPDefaultErrorHandler", "urllib2", "urllib.request"),
    MovedAttribute("HTTPRedirectHandler", "urllib2", "urllib.request"),
    MovedAttribute("HTTPCookieProcessor", "urllib2", "urllib.request"),
    MovedAttribute("ProxyHandler", "urllib2", "urllib.request"),
    MovedAttribute("BaseHandler", "urllib2", "urllib.request"),
    MovedAttribute("HTTPPasswordMgr", "urllib2", "urllib.request"),
    MovedAttribute("HTTPPasswordMgrWithDefaultRealm", "urllib2", "urllib.request"),
    MovedAttribute("AbstractBasicAuthHandler", "urllib2", "urllib.request"),
    MovedAttribute("HTTPBasicAuthHandler", "urllib2", "urllib.request"),
    MovedAttribute("ProxyBasicAuthHandler", "urllib2", "urllib.request"),
    MovedAttribute("AbstractDigestAuthHandler", "urllib2", "urllib.request"),
    MovedAttribute("HTTPDigestAuthHandler", "urllib2", "urllib.request"),
    MovedAttribute("ProxyDigestAuthHandler", "urllib2", "urllib.request"),
    MovedAttribute("HTTPHandler", "urllib2", "urllib.request"),
    MovedAttribute("HTTPSHandler", "urllib2", "urllib.request"),
    MovedAttribute("FileHandler", "urllib2", "urllib.request"),
    MovedAttribute("FTPHandler", "urllib2", "urllib.request"),
    MovedAttribute("CacheFTPHandler", "urllib2", "urllib.request"),
    MovedAttribute("UnknownHandler", "urllib2", "urllib.request"),
    MovedAttribute("HTTPErrorProcessor", "urllib2", "urllib.request"),
    MovedAttribute("urlretrieve", "urllib", "urllib.request"),
    MovedAttribute("urlcleanup", "urllib", "urllib.request"),
    MovedAttribute("URLopener", "urllib", "urllib.request"),
    MovedAttribute("FancyURLopener", "urllib", "urllib.request"),
    MovedAttribute("proxy_bypass", "urllib", "urllib.request"),
    MovedAttribute("parse_http_list", "urllib2", "urllib.request"),
    MovedAttribute("parse_keqv_list", "urllib2", "urllib.request"),
]
for attr in _urllib_request_moved_attributes:
    setattr(Module_six_moves_urllib_request, attr.name, attr)
del attr

Module_six_moves_urllib_request._moved_attributes = _urllib_request_moved_attributes

_importer._add_module(Module_six_moves_urllib_request(__name__ + ".moves.urllib.request"),
                      "moves.urllib_request", "moves.urllib.request")


class Module_six_moves_urllib_response(_LazyModule):

    """Lazy loading of moved objects in six.moves.urllib_response"""


_urllib_response_moved_attributes = [
    MovedAttribute("addbase", "urllib", "urllib.response"),
    MovedAttribute("addclosehook", "urllib", "urllib.response"),
    MovedAttribute("addinfo", "urllib", "urllib.response"),
    MovedAttribute("addinfourl", "urllib", "urllib.response"),
]
for attr in _urllib_response_moved_attributes:
    setattr(Module_six_moves_urllib_response, attr.name, attr)
del attr

Module_six_moves_urllib_response._moved_attributes = _urllib_response_moved_attributes

_importer._add_module(Module_six_moves_urllib_response(__name__ + ".moves.urllib.response"),
                      "moves.urllib_response", "moves.urllib.response")


class Module_six_moves_urllib_robotparser(_LazyModule):

    """Lazy loading of moved objects in six.moves.urllib_robotparser"""


_urllib_robotparser_moved_attributes = [
    MovedAttribute("RobotFileParser", "robotparser", "urllib.robotparser"),
]
for attr in _urllib_robotparser_moved_attributes:
    setattr(Module_six_moves_urllib_robotparser, attr.name, attr)
del attr

Module_six_moves_urllib_robotparser._moved_attributes = _urllib_robotparser_moved_attributes

_importer._add_module(Module_six_moves_urllib_robotparser(__name__ + ".moves.urllib.robotparser"),
                      "moves.urllib_robotparser", "moves.urllib.robotparser")


class Module_six_moves_urllib(types.ModuleType):

    """Create a six.moves.urllib namespace that resembles the Python 3 namespace"""
    __path__ = []  # mark as package
    parse = _importer._get_module("moves.urllib_parse")
    error = _importer._get_module("moves.urllib_error")
    request = _importer._get_module("moves.urllib_request")
    response = _importer._get_module("moves.urllib_response")
    robotparser = _importer._get_module("moves.urllib_robotparser")

    def __dir__(self):
        return ['parse', 'error', 'request', 'response', 'robotparser']

_importer._add_module(Module_six_moves_urllib(__name__ + ".moves.urllib"),
                      "moves.urllib")


def add_move(move):
    """Add an item to six.moves."""
    setattr(_MovedItems, move.name, move)


def remove_move(name):
    """Remove item from six.moves."""
    try:
        delattr(_MovedItems, name)
    except AttributeError:
        try:
            del moves.__dict__[name]
        except KeyError:
            raise AttributeError("no such move, %r" % (name,))


if PY3:
    _meth_func = "__func__"
    _meth_self = "__self__"

    _func_closure = "__closure__"
    _func_code = "__code__"
    _func_defaults = "__defaults__"
    _func_globals = "__globals__"
else:
    _meth_func = "im_func"
    _meth_self = "im_self"

    _func_closure = "func_closure"
    _func_code = "func_code"
    _func_defaults = "func_defaults"
    _func_globals = "func_globals"


try:
    advance_iterator = next
except NameError:
    def advance_iterator(it):
        return it.next()
next = advance_iterator


try:
    callable = callable
except NameError:
    def callable(obj):
        return any("__call__" in klass.__dict__ for klass in type(obj).__mro__)


if PY3:
    def get_unbound_function(unbound):
        return unbound

    create_bound_method = types.MethodType

    def create_unbound_method(func, cls):
        return func

    Iterator = object
else:
    def get_unbound_function(unbound):
        return unbound.im_func

    def create_bound_method(func, obj):
        return types.MethodType(func, obj, obj.__class__)

    def create_unbound_method(func, cls):
        return types.MethodType(func, None, cls)

    class Iterator(object):

        def next(self):
            return type(self).__next__(self)

    callable = callable
_add_doc(get_unbound_function,
         """Get the function out of a possibly unbound function""")


get_method_function = operator.attrgetter(_meth_func)
get_method_self = operator.attrgetter(_meth_self)
get_function_closure = operator.attrgetter(_func_closure)
get_function_code = operator.attrgetter(_func_code)
get_function_defaults = operator.attrgetter(_func_defaults)
get_function_globals = operator.attrgetter(_func_globals)


if PY3:
    def iterkeys(d, **kw):
        return iter(d.keys(**kw))

    def itervalues(d, **kw):
        return iter(d.values(**kw))

    def iteritems(d, **kw):
        return iter(d.items(**kw))

    def iterlists(d, **kw):
        return iter(d.lists(**kw))

    viewkeys = operator.methodcaller("keys")

    viewvalues = operator.methodcaller("values")

    viewitems = operator.methodcaller("items")
else:
    def iterkeys(d, **kw):
        return d.iterkeys(**kw)

    def itervalues(d, **kw):
        return d.itervalues(**kw)

    def iteritems(d, **kw):
        return d.iteritems(**kw)

    def iterlists(d, **kw):
        return d.iterlists(**kw)

    viewkeys = operator.methodcaller("viewkeys")

    viewvalues = operator.methodcaller("viewvalues")

    viewitems = operator.methodcaller("viewitems")

_add_doc(iterkeys, "Return an iterator over the keys of a dictionary.")
_add_doc(itervalues, "Return an iterator over the values of a dictionary.")
_add_doc(iteritems,
         "Return an iterator over the (key, value) pairs of a dictionary.")
_add_doc(iterlists,
         "Return an iterator over the (key, [values]) pairs of a dictionary.")


if PY3:
    def b(s):
        return s.encode("latin-1")

    def u(s):
        return s
    unichr = chr
    import struct
    int2byte = struct.Struct(">B").pack
    del struct
    byte2int = operator.itemgetter(0)
    indexbytes = operator.getitem
    iterbytes = iter
    import io
    StringIO = io.StringIO
    BytesIO = io.BytesIO
    del io
    _assertCountEqual = "assertCountEqual"
    if sys.version_info[1] <= 1:
        _assertRaisesRegex = "assertRaisesRegexp"
        _assertRegex = "assertRegexpMatches"
        _assertNotRegex = "assertNotRegexpMatches"
    else:
        _assertRaisesRegex = "assertRaisesRegex"
        _assertRegex = "assertRegex"
        _assertNotRegex = "assertNotRegex"
else:
    def b(s):
        return s
    # Workaround for standalone backslash

    def u(s):
        return unicode(s.replace(r'\\', r'\\\\'), "unicode_escape")
    unichr = unichr
    int2byte = chr

    def byte2int(bs):
        return ord(bs[0])

    def indexbytes(buf, i):
        return ord(buf[i])
    iterbytes = functools.partial(itertools.imap, ord)
    import StringIO
    StringIO = BytesIO = StringIO.StringIO
    _assertCountEqual = "assertItemsEqual"
    _assertRaisesRegex = "assertRaisesRegexp"
    _assertRegex = "assertRegexpMatches"
    _assertNotRegex = "assertNotRegexpMatches"
_add_doc(b, """Byte literal""")
_add_doc(u, """Text literal""")


def assertCountEqual(self, *args, **kwargs):
    return getattr(self, _assertCountEqual)(*args, **kwargs)


def assertRaisesRegex(self, *args, **kwargs):
    return getattr(self, _assertRaisesRegex)(*args, **kwargs)


def assertRegex(self, *args, **kwargs):
    return getattr(self, _assertRegex)(*args, **kwargs)


def assertNotRegex(self, *args, **kwargs):
    return getattr(self, _assertNotRegex)(*args, **kwargs)


if PY3:
    exec_ = getattr(moves.builtins, "exec")

    def reraise(tp, value, tb=None):
        try:
            if value is None:
                value = tp()
            if value.__traceback__ is not tb:
                raise value.with_traceback(tb)
            raise value
        finally:
            value = None
            tb = None

else:
    def exec_(_code_, _globs_=None, _locs_=None):
        """Execute code in a namespace."""
        if _globs_ is None:
            frame = sys._getframe(1)
            _globs_ = frame.f_globals
            if _locs_ is None:
                _locs_ = frame.f_locals
            del frame
        elif _locs_ is None:
            _locs_ = _globs_
        exec("""exec _code_ in _globs_, _locs_""")

    exec_("""def reraise(tp, value, tb=None):
    try:
        raise tp, value, tb
    finally:
        tb = None
""")


if sys.version_info[:2] > (3,):
    exec_("""def raise_from(value, from_value):
    try:
        raise value from from_value
    finally:
        value = None
""")
else:
    def raise_from(value, from_value):
        raise value


print_ = getattr(moves.builtins, "print", None)
if print_ is None:
    def print_(*args, **kwargs):
        """The new-style print function for Python 2.4 and 2.5."""
        fp = kwargs.pop("file", sys.stdout)
        if fp is None:
            return

        def write(data):
            if not isinstance(data, basestring):
                data = str(data)
            # If the file has an encoding, encode unicode with it.
            if (isinstance(fp, file) and
                    isinstance(data, unicode) and
                    fp.encoding is not None):
                errors = getattr(fp, "errors", None)
                if errors is None:
                    errors = "strict"
                data = data.encode(fp.encoding, errors)
            fp.write(data)
        want_unicode = False
        sep = kwargs.pop("sep", None)
        if sep is not None:
            if isinstance(sep, unicode):
                want_unicode = True
            elif not isinstance(sep, str):
                raise TypeError("sep must be None or a string")
        end = kwargs.pop("end", None)
        if end is not None:
            if isinstance(end, unicode):
                want_unicode = True
            elif not isinstance(end, str):
                raise TypeError("end must be None or a string")
        if kwargs:
            raise TypeError("invalid keyword arguments to print()")
        if not want_unicode:
            for arg in args:
                if isinstance(arg, unicode):
                    want_unicode = True
                    break
        if want_unicode:
            newline = unicode("\n")
            space = unicode(" ")
        else:
            newline = "\n"
            space = " "
        if sep is None:
            sep = space
        if end is None:
            end = newline
        for i, arg in enumerate(args):
            if i:
                write(sep)
            write(arg)
        write(end)
if sys.version_info[:2] < (3, 3):
    _print = print_

    def print_(*args, **kwargs):
        fp = kwargs.get("file", sys.stdout)
        flush = kwargs.pop("flush", False)
        _print(*args, **kwargs)
        if flush and fp is not None:
            fp.flush()

_add_doc(reraise, """Reraise an exception.""")

if sys.version_info[0:2] < (3, 4):
    # This does exactly the same what the :func:`py3:functools.update_wrapper`
    # function does on Python versions after 3.2. It sets the ``__wrapped__``
    # attribute on ``wrapper`` object and it doesn't raise an error if any of
    # the attributes mentioned in ``assigned`` and ``updated`` are missing on
    # ``wrapped`` object.
    def _update_wrapper(wrapper, wrapped,
                        assigned=functools.WRAPPER_ASSIGNMENTS,
                        updated=functools.WRAPPER_UPDATES):
        for attr in assigned:
            try:
                value = getattr(wrapped, attr)
            except AttributeError:
                continue
            else:
                setattr(wrapper, attr, value)
        for attr in updated:
            getattr(wrapper, attr).update(getattr(wrapped, attr, {}))
        wrapper.__wrapped__ = wrapped
        return wrapper
    _update_wrapper.__doc__ = functools.update_wrapper.__doc__

    def wraps(wrapped, assigned=functools.WRAPPER_ASSIGNMENTS,
              updated=functools.WRAPPER_UPDATES):
        return functools.partial(_update_wrapper, wrapped=wrapped,
                                 assigned=assigned, updated=updated)
    wraps.__doc__ = functools.wraps.__doc__

else:
    wraps = functools.wraps


def with_metaclass(meta, *bases):
    """Create a base class with a metaclass."""
    # This requires a bit of explanation: the basic idea is to make a dummy
    # metaclass for one level of class instantiation that replaces itself with
    # the actual metaclass.
    class metaclass(type):

        def __new__(cls, name, this_bases, d):
            if sys.version_info[:2] >= (3, 7):
                # This version introduced PEP 560 that requires a bit
                # of extra care (we mimic what is done by __build_class__).
                resolved_bases = types.resolve_bases(bases)
                if resolved_bases is not bases:
                    d['__orig_bases__'] = bases
            else:
                resolved_bases = bases
            return meta(name, resolved_bases, d)

        @classmethod
        def __prepare__(cls, name, this_bases):
            return meta.__prepare__(name, bases)
    return type.__new__(metaclass, 'temporary_class', (), {})


def add_metaclass(metaclass):
    """Class decorator for creating a class with a metaclass."""
    def wrapper(cls):
        orig_vars = cls.__dict__.copy()
        slots = orig_vars.get('__slots__')
        if slots is not None:
            if isinstance(slots, str):
                slots = [slots]
            for slots_var in slots:
                orig_vars.pop(slots_var)
        orig_vars.pop('__dict__', None)
        orig_vars.pop('__weakref__', None)
        if hasattr(cls, '__qualname__'):
            orig_vars['__qualname__'] = cls.__qualname__
        return metaclass(cls.__name__, cls.__bases__, orig_vars)
    return wrapper


def ensure_binary(s, encoding='utf-8', errors='strict'):
    """Coerce **s** to six.binary_type.

    For Python 2:
      - `unicode` -> encoded to `str`
      - `str` -> `str`

    For Python 3:
      - `str` -> encoded to `bytes`
      - `bytes` -> `bytes`
    """
    if isinstance(s, binary_type):
        return s
    if isinstance(s, text_type):
        return s.encode(encoding, errors)
    raise TypeError("not expecting type '%s'" % type(s))


def ensure_str(s, encoding='utf-8', errors='strict'):
    """Coerce *s* to `str`.

    For Python 2:
      - `unicode` -> encoded to `str`
      - `str` -> `str`

    For Python 3:
      - `str` -> `str`
      - `bytes` -> decoded to `str`
    """
    # Optimization: Fast return for the common case.
    if type(s) is str:
        return s
    if PY2 and isinstance(s, text_type):
        return s.encode(encoding, errors)
    elif PY3 and isinstance(s, binary_type):
        return s.decode(encoding, errors)
    elif not isinstance(s, (text_type, binary_type)):
        raise TypeError("not expecting type '%s'" % type(s))
    return s


def ensure_text(s, encoding='utf-8', errors='strict'):
    """Coerce *s* to six.text_type.

    For Python 2:
      - `unicode` -> `unicode`
      - `str` -> `unicode`

    For Python 3:
      - `str` -> `str`
      - `bytes` -> decoded to `str`
    """
    if isinstance(s, binary_type):
        return s.decode(encoding, errors)
    elif isinstance(s, text_type):
        return s
    else:
        raise TypeError("not expecting type '%s'" % type(s))


def python_2_unicode_compatible(klass):
    """
    A class decorator that defines __unicode__ and __str__ methods under Python 2.
    Under Python 3 it does nothing.

    To support Python 2 and 3 with a single code base, define a __str__ method
    returning text and apply this decorator to the class.
    """
    if PY2:
        if '__str__' not in klass.__dict__:
            raise ValueError("@python_2_unicode_compatible cannot be applied "
                             "to %s because it doesn't define __str__()." %
                             klass.__name__)
        klass.__unicode__ = klass.__str__
        klass.__str__ = lambda self: self.__unicode__().encode('utf-8')
    return klass


# Complete the moves implementation.
# This code is at the end of this module to speed up module loading.
# Turn this module into a package.
__path__ = []  # required for PEP 302 and PEP 451
__package__ = __name__  # see PEP 366 @ReservedAssignment
if globals().get("__spec__") is not None:
    __spec__.submodule_search_locations = []  # PEP 451 @UndefinedVariable
# Remove other six meta path importers, since they cause problems. This can
# happen if six is removed from sys.modules and then reloaded. (Setuptools does
# this for some reason.)
if sys.meta_path:
    for i, importer in enumerate(sys.meta_path):
        # Here's some real nastiness: Another "instance" of the six module might
        # be floating around. Therefore, we can't use isinstance() to check for
        # the six meta path importer, since the other six instance will have
        # inserted an importer with different class.
        if (type(importer).__name__ == "_SixMetaPathImporter" and
                importer.name == __name__):
            del sys.meta_path[i]
            break
    del i, importer
# Finally, add the importer to the meta path import hook.
sys.meta_path.append(_importer)
