"""Compatibility functions for Python 2 and 3."""

from __future__ import unicode_literals

import io

from django_evolution.compat import six
from django_evolution.compat.picklers import DjangoCompatUnpickler
from django_evolution.compat.six.moves import cPickle as pickle


def pickle_dumps(obj):
    """Return a pickled representation of an object.

    This will always use Pickle protocol 0, which is the default on Python 2,
    for compatibility across Python 2 and 3.

    Args:
        obj (object):
            The object to dump.

    Returns:
        unicode:
        The Unicode pickled representation of the object, safe for storing
        in the database.
    """
    return pickle.dumps(obj, protocol=0).decode('latin1')


def pickle_loads(pickled_str):
    """Return the unpickled data from a pickle payload.

    Args:
        pickled_str (bytes):
            The pickled data.

    Returns:
        object:
        The unpickled data.
    """
    if isinstance(pickled_str, six.text_type):
        pickled_str = pickled_str.encode('latin1')

    try:
        return pickle.loads(pickled_str)
    except AttributeError:
        # We failed to load something from the pickled data. We have to try
        # again with our own unpickler, which unfortunately won't benefit from
        # cPickle, but it at least lets us remap things.
        return DjangoCompatUnpickler(io.BytesIO(pickled_str)).load()
