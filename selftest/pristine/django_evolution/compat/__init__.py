"""Compatibility support for Python and Django versions."""

from __future__ import unicode_literals

from django_evolution.compat.patches import apply_patches


# Apply all necessary patches.
apply_patches()
