"""Compatibility module for management commands."""

from __future__ import unicode_literals

from optparse import OptionParser

from django.core.management.base import BaseCommand as DjangoBaseCommand

from django_evolution.compat import six


class OptionParserWrapper(object):
    """Compatibility wrapper for OptionParser.

    This exports a more modern :py:class:`~argparse.ArgumentParser`-based API
    for :py:class:`~optparse.OptionParser`, for use when adding arguments in
    management commands. This only contains a subset of the functionality
    of :py:class:`~argparse.ArgumentParser`.
    """

    def __init__(self, parser):
        """Initialize the wrapper.

        Args:
            parser (optparse.OptionParser):
                The option parser.
        """
        self.parser = parser

    def add_argument(self, *args, **kwargs):
        """Add an argument to the parser.

        This is a simple wrapper that provides compatibility with most of
        :py:meth:`argparse.ArgumentParser.add_argument`. It supports the
        types that :py:meth:`optparse.OptionParser.add_option` supports (though
        those types should be passed as the primitive types and not as the
        string names).

        Args:
            *args (tuple):
                Positional arguments to pass to
                :py:meth:`optparse.OptionParser.add_option`.

            **kwargs (dict):
                Keyword arguments to pass to
                :py:meth:`optparse.OptionParser.add_option`.
        """
        if not args[0].startswith('-'):
            # This is a positional argument, which is not supported by
            # optparse.
            return

        arg_type = kwargs.get('type')

        if arg_type is not None:
            kwargs['type'] = six.text_type(arg_type.__name__)

        self.parser.add_option(*args, **kwargs)


class BaseCommand(DjangoBaseCommand):
    """Base command compatible with a range of Django versions.

    This is a version of :py:class:`django.core.management.base.BaseCommand`
    that supports the modern way of adding arguments while retaining
    compatibility with older versions of Django. See the parent class's
    documentation for details on usage.
    """

    @property
    def use_argparse(self):
        """Whether argparse should be used for argument parsing.

        This is used internally by Django.
        """
        return not bool(self.__class__.__dict__.get('option_list'))

    def create_parser(self, *args, **kwargs):
        """Create a parser for the command.

        This is a wrapper around Django's method that ensures compatibility
        with old-style (<= 1.6)) and new-style (>= 1.7) argument parsing
        logic.

        Args:
            *args (tuple):
                Positional arguments to pass to the parent method.

            **kwargs (dict):
                Keyword arguments to pass to the parent method.

        Return:
            object:
            The argument parser. This will be a
            :py:class:`optparse.OptionParser` or a
            :py:class:`argparse.ArgumentParser`.
        """
        # Start off by disabling add_arguments() from being invoked by the
        # parent. We want to call this ourselves.
        old_add_arguments = self.add_arguments
        self.add_arguments = lambda *args: None

        parser = super(BaseCommand, self).create_parser(*args, **kwargs)

        self.add_arguments = old_add_arguments

        # Now invoke add_arguments() ourselves, using a wrapper for older
        # versions of Django.
        if isinstance(parser, OptionParser):
            self.add_arguments(OptionParserWrapper(parser))
        else:
            self.add_arguments(parser)

        return parser

    def add_arguments(self, parser):
        """Add arguments to the command.

        By default, this does nothing. Subclasses can override to add
        additional arguments.

        Args:
            parser (object):
                The argument parser. This will be a
                :py:class:`optparse.OptionParser` or a
                :py:class:`argparse.ArgumentParser`.
        """
        # This is intentionally meant to be blank by default.
        pass

    def __getattribute__(self, name):
        """Return an attribute from the command.

        If the attribute name is "option_list", some special work will be
        done to ensure we're returning a valid list that the caller can work
        with, even if the options were created in :py:meth:`add_arguments`.

        Args:
            name (unicode):
                The attribute name.

        Returns:
            object:
            The attribute value.
        """
        if (name == 'option_list' and
            not getattr(self, '_use_real_option_list', False)):
            # The parser is going to turn around and fetch self.option_list
            # (which will contain the defaults for the class, or the options
            # defined by the subclass if it hasn't been updated yet). We need
            # to make sure it gets the real copy.
            self._use_real_option_list = True
            parser = self.create_parser('', self.__class__.__module__)
            self._use_real_option_list = False

            assert isinstance(parser, OptionParser)

            # We're going to get more than the options defined for the
            # command. We'll also get the built-in --help and --version
            # options, which are special and will break call_command(), as
            # they don't have a destination variable and aren't listed in the
            # command's option_list normally. So filter those out.
            return [
                option
                for option in parser.option_list
                if option.get_opt_string() not in ('--help', '--version')
            ]

        return super(BaseCommand, self).__getattribute__(name)
