"""Compatibility functions for model-related operations.

This provides functions for working with models or importing moved fields.
These translate to the various versions of Django that are supported.
"""

from __future__ import unicode_literals

from django.db import models
from django.db.models.fields import related

try:
    # Django >= 1.7
    from django.apps.registry import apps
    from django.contrib.contenttypes.fields import (GenericForeignKey,
                                                    GenericRelation)

    cache = None
    all_models = apps.all_models
    get_model = apps.get_model
    _get_models = None
except ImportError:
    # Django < 1.7
    from django.db.models.loading import (cache, get_model,
                                          get_models as _get_models)
    from django.contrib.contenttypes.generic import (GenericForeignKey,
                                                     GenericRelation)

    all_models = cache.app_models
    apps = None

try:
    # Django >= 1.8
    from django.core.exceptions import FieldDoesNotExist
except ImportError:
    # Django < 1.8
    from django.db.models.fields import FieldDoesNotExist


def get_models(app_mod=None, include_auto_created=False):
    """Return the models belonging to an app.

    Args:
        app_mod (module, optional):
            The application module.

        include_auto_created (bool, optional):
            Whether to return auto-created models (such as many-to-many
            models) in the results.

    Returns:
        list:
        The list of modules belonging to the app.
    """
    if apps:
        # Django >= 1.7
        if app_mod is None:
            return apps.get_models(include_auto_created=include_auto_created)

        for app_config in apps.get_app_configs():
            if app_config.models_module is app_mod:
                return [
                    model
                    for model in app_config.get_models(
                        include_auto_created=include_auto_created)
                    if not model._meta.abstract
                ]

        return []
    else:
        # Django < 1.7
        models = _get_models(app_mod,
                             include_auto_created=include_auto_created)

        if app_mod is not None:
            # Avoids a circular import.
            from django_evolution.utils.apps import get_app_name

            app_mod_name = get_app_name(app_mod)

            models = [
                model
                for model in models
                if model.__module__.startswith(app_mod_name)
            ]

        return models


def set_model_name(model, name):
    """Set the name of a model.

    Args:
        model (django.db.models.Model):
            The model to set the new name on.

        name (str):
            The new model name.
    """
    if hasattr(model._meta, 'model_name'):
        # Django >= 1.7
        model._meta.model_name = name
    else:
        # Django < 1.7
        model._meta.module_name = name


def get_model_name(model):
    """Return the model's name.

    Args:
        model (django.db.models.Model):
            The model for which to return the name.

    Returns:
        str: The model's name.
    """
    if hasattr(model._meta, 'model_name'):
        # Django >= 1.7
        return model._meta.model_name
    else:
        # Django < 1.7
        return model._meta.module_name


def get_field_is_hidden(field):
    """Return whether a field is hidden.

    Version Added:
        2.2

    Args:
        field (django.db.models.Field):
            The field to check.

    Returns:
        bool:
        ``True`` if the field is hidden. ``False`` if it is not.
    """
    if hasattr(field, 'hidden'):
        # Django >= 1.8
        return field.hidden
    else:
        # Django < 1.8
        if hasattr(field, 'rel'):
            return field.rel.is_hidden()
        else:
            return field.is_hidden()


def get_field_is_many_to_many(field):
    """Return whether a field is a Many-to-Many field.

    Version Added:
        2.2

    Args:
        field (django.db.models.Field):
            The field to check.

    Returns:
        bool:
        ``True`` if the field is a Many-to-Many field. ``False`` if it is not.
    """
    if hasattr(field, 'many_to_many'):
        # Django >= 1.8
        return field.many_to_many
    else:
        # Django < 1.8
        return isinstance(field, (models.ManyToManyField,
                                  related.ManyToManyRel))


def get_field_is_relation(field):
    """Return whether a field is a relation.

    A field is a relation if it's an object like a
    :py:class:`django.db.models.ForeignKey` or
    :py:class:`django.db.models.ManyToManyField`, or if it's a relation
    utility field like
    :py:class:`django.db.models.fields.related.ForeignObjectRel` or
    :py:class:`django.db.models.fields.related.ManyToOneRel`.

    Version Added:
        2.2

    Args:
        field (django.db.models.Field or
               django.db.models.fields.related.ForeignObjectRel):
            The field to check.

    Returns:
        bool:
        ``True`` if the field is a relation. ``False`` if it is not.
    """
    if hasattr(field, 'is_relation'):
        # Django >= 1.8
        return field.is_relation
    else:
        # Django < 1.8
        return (getattr(field, 'rel', None) is not None or
                isinstance(field, (related.ForeignObjectRel,
                                   related.ManyToManyRel)))


def get_rel_target_field(field):
    """Return the target field for a field's relation.

    Warning:
        Despite the name, this should only be called on a
        :py:class:`ForeignKey` and not on a relation, in order to avoid
        consistency issues in the data returned on Django >= 1.7.

    Args:
        field (django.db.models.Field):
            The relation field.

    Returns:
        django.db.models.Field:
        The field on the other end of the relation.
    """
    if hasattr(field, 'target_field'):
        # Django >= 1.7
        return field.target_field
    else:
        # Django < 1.7
        return field.related_field


def get_remote_field(field):
    """Return the remote field for a relation.

    This will be an intermediary field, such as:

    * :py:class:`django.db.models.fields.related.ForeignObjectRel`
    * :py:class:`django.db.models.fields.related.ManyToOneRel`
    * :py:class:`django.db.models.fields.related.OneToOneRel`
    * :py:class:`django.db.models.fields.related.ManyToManyRel`

    This is equivalent to ``rel`` prior to Django 1.9 and ``remote_field``
    in 1.9 onward.

    Version Changed:
        2.2:
        On Django < 1.9, a main relation field (like
        :py:class:`django.db.models.ForeignKey`) will return the utility
        relation, matching the behavior on >= 1.9.

    Args:
        field (django.db.models.Field):
            The relation field.

    Returns:
        django.db.models.Field:
        The remote field on the relation.
    """
    if hasattr(field, 'remote_field'):
        # Django >= 1.9
        return field.remote_field
    else:
        # Django < 1.9
        if hasattr(field, 'rel'):
            return field.rel
        elif isinstance(field, related.ManyToManyRel):
            return getattr(field.to, field.related_name).related.field
        elif isinstance(field, related.ForeignObjectRel):
            return field.field

        raise NotImplementedError('Unsupported field/relation type: %r'
                                  % field)


def get_remote_field_model(rel):
    """Return the model a relation is pointing to.

    This is equivalent to ``rel.to`` prior to Django 1.9 and
    ``remote_field.model`` in 1.9 onward.

    Args:
        rel (object):
            The relation object. This is expected to be the result of a
            :py:func:`get_remote_field` call.

    Returns:
        type:
        The model the relation points to. This should be a subclass of
        :py:meth:`django.db.models.Model`.
    """
    if hasattr(rel, 'model'):
        # Django >= 1.9
        return rel.model
    else:
        # Django < 1.9
        return rel.to


def get_remote_field_related_model(rel):
    """Return the model a relation is pointing from.

    Version Added:
        2.2

    Args:
        rel (object):
            The relation object. This is expected to be the result of a
            :py:func:`get_remote_field` call.

    Returns:
        type:
        The model the relation points to. This should be a subclass of
        :py:meth:`django.db.models.Model`.
    """
    if hasattr(rel, 'related_model'):
        # Django >= 1.9
        return rel.related_model
    else:
        # Django < 1.9
        if isinstance(rel, models.ForeignKey):
            return rel.rel.get_related_field().model
        elif isinstance(rel, models.ManyToManyField):
            return rel.rel.to
        elif isinstance(rel, related.ManyToOneRel):
            return rel.field.model
        elif isinstance(rel, related.ManyToManyRel):
            return getattr(rel.to, rel.related_name).related.model
        elif isinstance(rel, related.ForeignObjectRel):
            return rel.get_related_field().model

        raise NotImplementedError('Unsupported field/relation type: %r' % rel)


__all__ = [
    'FieldDoesNotExist',
    'GenericForeignKey',
    'GenericRelation',
    'all_models',
    'get_field_is_hidden',
    'get_field_is_many_to_many',
    'get_field_is_relation',
    'get_model',
    'get_models',
    'get_model_name',
    'get_rel_target_field',
    'get_remote_field',
    'get_remote_field_model',
    'get_remote_field_related_model',
    'set_model_name',
]
