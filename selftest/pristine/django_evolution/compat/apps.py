"""Compatibility functions for the application registration.

This provides functions for app registration and lookup. These functions
translate to the various versions of Django that are supported.
"""

from __future__ import unicode_literals

from django.conf import settings
from django.core.exceptions import ImproperlyConfigured

try:
    # Django >= 1.7
    from django.apps.config import AppConfig
    from django.apps.registry import apps

    cache = None
except ImportError:
    # Django < 1.7
    from django.db.models.loading import cache

    apps = None
    AppConfig = None

from django_evolution.compat.datastructures import OrderedDict
from django_evolution.compat.models import all_models


def get_app(app_label, emptyOK=False):
    """Return the app with the given label.

    This returns the app from the app registry on Django >= 1.7, and from
    the old-style cache on Django < 1.7.

        app_label (str):
            The label for the app containing the models.

        emptyOK (bool, optional):
            Impacts the return value if the app has no models in it.

    Returns:
        module:
        The app module, if available.

        If the app module is available, but the models module is not and
        ``emptyOK`` is set, this will return ``None``. Otherwise, if modules
        are not available, this will raise
        :py:exc:`~django.core.exceptions.ImproperlyConfigured`.

    Raises:
        django.core.exceptions.ImproperlyConfigured:
            The app module was not found, or it was found but a models module
            was not and ``emptyOK`` was ``False``.
    """
    if apps:
        # Django >= 1.7
        try:
            models_module = apps.get_app_config(app_label).models_module
        except LookupError as e:
            # Convert this to an ImproperlyConfigured.
            raise ImproperlyConfigured(*e.args)

        if models_module is None and not emptyOK:
            # This is the exact error that Django 1.6 provided.
            raise ImproperlyConfigured(
                'App with label %s is missing a models.py module.'
                % app_label)

        return models_module
    else:
        # Django < 1.7
        return cache.get_app(app_label, emptyOK)


def get_apps():
    """Return the list of all installed apps with models.

    This returns the apps from the app registry on Django >= 1.7, and from
    the old-style cache on Django < 1.7.

    Returns:
        list: A list of all the modules containing model classes.
    """
    if apps:
        # Django >= 1.7
        return [
            app.models_module
            for app in apps.get_app_configs()
            if app.models_module is not None
        ]
    else:
        # Django < 1.7
        return cache.get_apps()


def is_app_registered(app):
    """Return whether the app registry is tracking a given app.

    Args:
        app (module):
            The app to check for.

    Returns:
        bool:
        ``True`` if the app is tracked by the registry. ``False`` if not.
    """
    if apps:
        # Django >= 1.7
        return apps.is_installed(app.__name__)
    else:
        # Django < 1.7
        return app in cache.app_store


def register_app(app_label, app):
    """Register a new app in the registry.

    This must be balanced with a :py:func:`unregister_app` call.

    Args:
        app_label (str):
            The label of the app.

        app (module):
            The app module.
    """
    if apps:
        # Django >= 1.7
        app_config = AppConfig(app.__name__, app)
        app_config.label = app_label
        app_config.models_module = app

        apps.set_installed_apps(settings.INSTALLED_APPS + [app_config])
    else:
        # Django < 1.7
        cache.app_store[app] = len(cache.app_store)

        if hasattr(cache, 'app_labels'):
            cache.app_labels[app_label] = app


def unregister_app(app_label):
    """Unregister an app in the registry.

    This must be balanced with a :py:func:`register_app` call.

    Args:
        app_label (str):
            The label of the app to register.
    """
    if apps:
        # Django >= 1.7
        #
        # We need to balance the ``set_installed_apps`` from
        # :py:func:`register_app` here.
        apps.unset_installed_apps()

    all_models[app_label].clear()
    clear_app_cache()


def register_app_models(app_label, model_infos, reset=False):
    """Register one or more models to a given app.

    These will add onto the list of existing models.

    Args:
        app_label (str):
            The label of the app to register the models on.

        model_info (list);
            A list of pairs of ``(model name, model class)`` to register.

        reset (bool, optional):
            If set, the old list will be overwritten with the new list.
    """
    if app_label not in all_models:
        # This isn't really needed for Django 1.7+ (which uses defaultdict
        # with OrderedDict), but it's needed for earlier versions, so do it
        # explicitly.
        all_models[app_label] = OrderedDict()

    model_dict = all_models[app_label]

    if reset:
        model_dict.clear()

    for model_name, model in model_infos:
        model_dict[model_name] = model

    clear_app_cache()


def unregister_app_model(app_label, model_name):
    """Unregister a model with the given name from the given app.

    Args:
        app_label (str):
            The label of the app containing a model.

        model_name (str):
            The name of the model to unregister.
    """
    del all_models[app_label][model_name]
    clear_app_cache()


def clear_app_cache():
    """Clear the Django app/models caches.

    This cache is used in Django >= 1.2 to quickly return results when
    fetching models. It needs to be cleared when modifying the model registry.
    """
    if apps:
        # Django >= 1.7
        apps.clear_cache()
    elif hasattr(cache, '_get_models_cache'):
        # Django >= 1.2, < 1.7
        cache._get_models_cache.clear()


__all__ = [
    'apps',
    'clear_app_cache',
    'get_app',
    'get_apps',
]
