"""Compatibility functions for database-related operations.

This provides functions for database operations, SQL generation, index name
generation, and more. These functions translate to the various versions of
Django that are supported.
"""

from __future__ import unicode_literals

from contextlib import contextmanager

import django
from django.core.management import color, sql as sql_utils
from django.db import connections, router, transaction
from django.db.utils import DEFAULT_DB_ALIAS

try:
    # Django >= 1.7
    from django.apps.registry import apps
    from django.db.backends.utils import truncate_name
    from django.db.migrations.executor import MigrationExecutor
except ImportError:
    # Django < 1.7
    from django.db.backends.util import truncate_name

    apps = None
    MigrationExecutor = None

try:
    # Django >= 1.8
    from django.db.backends.base.schema import BaseDatabaseSchemaEditor
except ImportError:
    try:
        # Django == 1.7
        from django.db.backends.schema import BaseDatabaseSchemaEditor
    except ImportError:
        # Django < 1.7
        BaseDatabaseSchemaEditor = None

try:
    # Django >= 2.2
    from django.db.backends.utils import names_digest
except ImportError:
    # Django < 2.2
    names_digest = None

from django_evolution.compat import six
from django_evolution.compat.models import get_models, get_remote_field
from django_evolution.support import supports_index_together
from django_evolution.utils.apps import get_app_label


@contextmanager
def atomic(using=None):
    """Perform database operations atomically within a transaction.

    The caller can use this to ensure SQL statements are executed within
    a transaction and then cleaned up nicely if there's an error.

    This provides compatibility with all supported versions of Django.

    Args:
        using (str, optional):
            The database connection name to use. Defaults to the default
            database connection.
    """
    if hasattr(transaction, 'atomic'):
        # Django >= 1.5
        with transaction.atomic(using=using):
            yield
    else:
        # Django < 1.5
        assert hasattr(transaction, 'enter_transaction_management')

        try:
            # Begin Transaction
            transaction.enter_transaction_management(using=using)
            transaction.managed(True, using=using)

            yield

            transaction.commit(using=using)
            transaction.leave_transaction_management(using=using)
        except Exception:
            transaction.rollback(using=using)
            raise


@contextmanager
def collect_sql_schema_editor(connection):
    """Create a schema editor for the purpose of collecting SQL.

    This carefully constructs a database backend's schema editor in
    SQL-collection mode without triggering side effects that could cause
    failure when in a transaction.

    This failure mode is present on Django 2.0 and higher with SQLite.
    Essentially, it tried to disable foreign key checks and then checked if
    it succeeded in disabling those. If it did not, it would fail. This makes
    sense for execution, but not for collection.

    We work around that in this method by initializing the editor ourselves,
    setting up state, and processing the results, without invoking the
    schema editor's context management methods.

    Version Added:
        2.2

    Args:
        connection (django.db.backends.base.BaseDatabaseWrapper):
            The database connection object.

    Context:
        django.db.backends.base.schema.BaseDatabaseSchemaEditor:
        The schema editor, set up for SQL collection.

    Raises:
        Exception:
            An exception raised within the context, unmodified.
    """
    assert hasattr(connection, 'schema_editor')

    connection.disable_constraint_checking()
    schema_editor = connection.schema_editor(collect_sql=True)

    # This is normally set in DatabaseSchemaEditor.__enter__().
    schema_editor.deferred_sql = []

    # Allow exceptions to bubble up.
    yield schema_editor

    # This is normally invoked in DatabaseSchemaEditor.__exit__().
    for sql in schema_editor.deferred_sql:
        schema_editor.execute(sql)


def digest(connection, *args):
    """Return a digest hash for a set of arguments.

    This is mostly used as part of the index/constraint name generation
    processes. It offers compatibility with a range of Django versions.

    Args:
        connection (object):
            The database connection.

        *args (tuple):
            The positional arguments used to build the digest hash out of.

    Returns:
        str:
        The resulting digest hash.
    """
    if names_digest is not None:
        # Django >= 2.2
        return names_digest(args[0], *args[1:], length=8)
    elif (BaseDatabaseSchemaEditor and
          hasattr(BaseDatabaseSchemaEditor, '_digest')):
        # Django >= 1.8, < 2.2
        #
        # Note that _digest() is a classmethod that is common across all
        # database backends. We don't need to worry about using a
        # per-instance version. If that changes, we'll need to create a
        # SchemaEditor.
        return BaseDatabaseSchemaEditor._digest(*args)
    else:
        # Django < 1.8
        return connection.creation._digest(*args)


def convert_table_name(connection, name):
    """Convert a table name to a format required by the database backend.

    The conversion may result in quoting or otherwise altering the table name.

    This provides compatibility with all supported versions of Django.

    Args:
        connection (object):
            The database connection.

        name (unicode):
            The table name to convert.

    Returns:
        unicode:
        The converted table name.
    """
    introspection = connection.introspection

    if hasattr(introspection, 'identifier_converter'):
        # Django >= 2.2
        return introspection.identifier_converter(name)
    else:
        # Django < 2.2
        return introspection.table_name_converter(name)


def sql_create_models(models, tables=None, db_name=None,
                      return_deferred=False):
    """Return SQL statements for creating a list of models.

    This provides compatibility with all supported versions of Django.

    It's recommended that callers include auto-created models in the list,
    to ensure all references are correct.

    Version Changed:
        2.2:
        Added the ``return_deferred` argument.

    Args:
        models (list of type):
            The list of :py:class:`~django.db.models.Model` subclasses.

        tables (list of unicode, optional):
            A list of existing table names from the database. If not provided,
            this will be introspected from the database.

        db_name (str, optional):
            The database connection name. Defaults to the default database
            connection.

        return_deferred (bool, optional):
            Whether to return any deferred SQL separately from the model
            creation SQL. If ``True``, the return type will change to a tuple.

    Returns:
        list or tuple:
        If ``return_deferred=False`` (the default), this will be a list of
        SQL statements used to create the models for the app.

        If ``return_deferred=True``, this will be a 2-tuple in the form of
        ``(list_of_sql, list_of_deferred_sql)``.
    """
    connection = connections[db_name or DEFAULT_DB_ALIAS]

    if BaseDatabaseSchemaEditor:
        # Django >= 1.7
        with collect_sql_schema_editor(connection) as schema_editor:
            for model in models:
                schema_editor.create_model(model)

            if return_deferred:
                collected_sql = list(schema_editor.collected_sql)
                deferred_sql = [
                    '%s;' % _statement
                    for _statement in schema_editor.deferred_sql
                ]

                return collected_sql, deferred_sql

        return schema_editor.collected_sql
    else:
        # Django < 1.7
        creation = connection.creation
        style = color.no_style()
        pending_references = {}

        if tables is None:
            tables = connection.introspection.table_names()

        seen_models = connection.introspection.installed_models(tables)
        sql = []
        deferred_sql = []

        for model in models:
            model_sql, references = creation.sql_create_model(
                model, style, seen_models)
            seen_models.add(model)

            sql += model_sql

            for ref_to, refs in six.iteritems(references):
                pending_references.setdefault(ref_to, []).extend(refs)

                if ref_to in seen_models:
                    deferred_sql += creation.sql_for_pending_references(
                        ref_to, style, pending_references)

            deferred_sql += creation.sql_for_pending_references(
                model, style, pending_references)

        for model in models:
            deferred_sql += creation.sql_indexes_for_model(model, style)

        if return_deferred:
            return sql, deferred_sql
        else:
            return sql + deferred_sql


def sql_create_app(app, db_name=None):
    """Return SQL statements for creating all models for an app.

    This provides compatibility with all supported versions of Django.

    Args:
        app (module):
            The application module.

        db_name (str, optional):
            The database connection name. Defaults to the default database
            connection.

    Returns:
        list:
        The list of SQL statements used to create the models for the app.
    """
    # On Django >= 1.7, models for a M2M field will be created automatically,
    # so we don't want to include them in any results.
    #
    # On Django < 1.7, we need to explicitly return these models.
    models = get_models(app, include_auto_created=apps is None)

    return sql_create_models(models, db_name=db_name)


def sql_delete(app, db_name=None):
    """Return SQL statements for deleting all models in an app.

    This provides compatibility with all supported versions of Django.

    Args:
        app (module):
            The application module containing the models to delete.

        db_name (str, optional):
            The database connection name. Defaults to the default database
            connection.

    Returns:
        list:
        The list of SQL statements for deleting the models and constraints.
    """
    connection = connections[db_name or DEFAULT_DB_ALIAS]

    if BaseDatabaseSchemaEditor:
        # Django >= 1.7
        introspection = connection.introspection

        all_table_names = set(introspection.table_names())
        deleted_models = set()

        introspection = connection.introspection

        with collect_sql_schema_editor(connection) as schema_editor:
            for model in get_models(app):
                table_name = convert_table_name(connection,
                                                model._meta.db_table)

                if (table_name in all_table_names and
                    model not in deleted_models):
                    schema_editor.delete_model(model)
                    deleted_models.add(model)

        return schema_editor.collected_sql
    else:
        # Django < 1.7
        style = color.no_style()

        return sql_utils.sql_delete(app, style, connection)


def sql_create_for_many_to_many_field(connection, model, field):
    """Return SQL statements for creating a ManyToManyField's table.

    This provides compatibility with all supported versions of Django.

    Args:
        connection (object):
            The database connection.

        model (django.db.models.Model):
            The model for the ManyToManyField's relations.

        field (django.db.models.ManyToManyField):
            The field setting up the many-to-many relation.

    Returns:
        list:
        The list of SQL statements for creating the table and constraints.
    """
    through = get_remote_field(field).through

    if BaseDatabaseSchemaEditor:
        # Django >= 1.7
        with collect_sql_schema_editor(connection) as schema_editor:
            schema_editor.create_model(through)

        return schema_editor.collected_sql
    else:
        # Django < 1.7
        style = color.no_style()

        if through:
            references = {}
            pending_references = {}

            sql, references = connection.creation.sql_create_model(
                through, style)

            # Sort the list, in order to create consistency in the order of
            # ALTER TABLEs. This is primarily needed for unit tests.
            for refto, refs in sorted(six.iteritems(references),
                                      key=lambda i: repr(i)):
                pending_references.setdefault(refto, []).extend(refs)
                sql.extend(sql_add_constraints(connection, refto,
                                               pending_references))

            sql.extend(sql_add_constraints(connection, through,
                                           pending_references))
        else:
            sql = connection.creation.sql_for_many_to_many_field(
                model, field, style)

        return sql


def sql_indexes_for_field(connection, model, field):
    """Return SQL statements for creating indexes for a field.

    This provides compatibility with all supported versions of Django.

    Args:
        connection (object):
            The database connection.

        model (django.db.models.Model):
            The database model owning the field.

        field (django.db.models.Field):
            The field being indexed.

    Returns:
        list:
        The list of SQL statements for creating the indexes.
    """
    if BaseDatabaseSchemaEditor:
        # Django >= 1.7
        #
        # Unlike sql_indexes_for_field(), _create_index_sql() won't be
        # checking whether it *should* create an index for the given field.
        # We have to check that here instead.
        if not field.db_index or field.unique:
            return []

        with collect_sql_schema_editor(connection) as schema_editor:
            return ['%s;' % schema_editor._create_index_sql(model,
                                                            fields=[field])]
    else:
        # Django < 1.7
        return connection.creation.sql_indexes_for_field(model, field,
                                                         color.no_style())


def sql_indexes_for_fields(connection, model, fields, index_together=False):
    """Return SQL statements for creating indexes covering multiple fields.

    This provides compatibility with all supported versions of Django.

    Args:
        connection (object):
            The database connection.

        model (django.db.models.Model):
            The database model owning the fields.

        fields (list of django.db.models.Field):
            The list of fields for the index.

        index_together (bool, optional):
            Whether this is from an index_together rule.

    Returns:
        list:
        The list of SQL statements for creating the indexes.
    """
    if BaseDatabaseSchemaEditor:
        # Django >= 1.7
        if index_together:
            suffix = '_idx'
        else:
            suffix = ''

        with collect_sql_schema_editor(connection) as schema_editor:
            return ['%s;' % schema_editor._create_index_sql(model,
                                                            fields=fields,
                                                            suffix=suffix)]
    else:
        # Django < 1.7
        return connection.creation.sql_indexes_for_fields(model, fields,
                                                          color.no_style())


def sql_indexes_for_model(connection, model):
    """Return SQL statements for creating all indexes for a model.

    This provides compatibility with all supported versions of Django.

    Args:
        connection (object):
            The database connection.

        model (django.db.models.Model):
            The database model to create indexes for.

    Returns:
        list:
        The list of SQL statements for creating the indexes.
    """
    if BaseDatabaseSchemaEditor:
        # Django >= 1.7
        with collect_sql_schema_editor(connection) as schema_editor:
            return [
                '%s;' % s
                for s in schema_editor._model_indexes_sql(model)
            ]
    else:
        # Django < 1.7
        return connection.creation.sql_indexes_for_model(model,
                                                         color.no_style())


def sql_delete_index(connection, model, index_name):
    """Return SQL statements for deleting an index.

    This provides compatibility with all supported versions of Django.

    Args:
        connection (object):
            The database connection.

        model (django.db.models.Model):
            The database model to delete an index on.

        index_name (unicode):
            The name of the index to delete.

    Returns:
        list:
        The list of SQL statements for deleting the index.
    """
    if BaseDatabaseSchemaEditor:
        # Django >= 1.7
        with collect_sql_schema_editor(connection) as schema_editor:
            return [
                '%s;' % schema_editor._delete_constraint_sql(
                    template=schema_editor.sql_delete_index,
                    model=model,
                    name=index_name),
            ]
    else:
        # Django < 1.7
        qn = connection.ops.quote_name

        return ['DROP INDEX %s;' % qn(index_name)]


def sql_delete_constraints(connection, model, remove_refs):
    """Return SQL statements for deleting constraints.

    This provides compatibility with all supported versions of Django.

    Args:
        connection (object):
            The database connection.

        model (django.db.models.Model):
            The database model to delete constraints on.

        remove_refs (dict):
            A dictionary of constraint references to remove.

            The keys are instances of :py:class:`django.db.models.Model`.
            The values are a tuple of (:py:class:`django.db.models.Model`,
            :py:class:`django.db.models.Field`).

            Warning:
                Keys may be removed as constraints are deleted. Make sure to
                pass in a copy of the dictionary if the original dictionary
                msut be preserved.

    Returns:
        list:
        The list of SQL statements for deleting constraints.
    """
    if BaseDatabaseSchemaEditor:
        # Django >= 1.7
        meta = model._meta

        if not meta.managed or meta.swapped or meta.proxy:
            return []

        sql = []

        with collect_sql_schema_editor(connection) as schema_editor:
            for rel_class, f in remove_refs[model]:
                fk_names = schema_editor._constraint_names(
                    rel_class, [f.column], foreign_key=True)

                for fk_name in fk_names:
                    sql.append('%s;' % schema_editor._delete_constraint_sql(
                        schema_editor.sql_delete_fk, rel_class, fk_name))

        return sql
    else:
        # Django < 1.7
        return connection.creation.sql_remove_table_constraints(
            model, remove_refs, color.no_style())


def sql_add_constraints(connection, model, refs):
    """Return SQL statements for adding constraints.

    This provides compatibility with all supported versions of Django.

    Args:
        connection (object):
            The database connection.

        model (django.db.models.Model):
            The database model to add constraints on.

        refs (dict):
            A dictionary of constraint references to add.

            The keys are instances of :py:class:`django.db.models.Model`.
            The values are a tuple of (:py:class:`django.db.models.Model`,
            :py:class:`django.db.models.Field`).

            Warning:
                Keys may be removed as constraints are added. Make sure to
                pass in a copy of the dictionary if the original dictionary
                msut be preserved.

    Returns:
        list:
        The list of SQL statements for adding constraints.
    """
    if BaseDatabaseSchemaEditor:
        # Django >= 1.7
        meta = model._meta

        if not meta.managed or meta.swapped:
            return []

        sql = []

        if model in refs:
            with collect_sql_schema_editor(connection) as schema_editor:
                assert schema_editor.sql_create_fk, (
                    'sql_add_constraints() cannot be called for this type '
                    'of database.'
                )

                qn = schema_editor.quote_name

                for rel_class, f in refs[model]:
                    # Ideally, we would use schema_editor._create_fk_sql here,
                    # but it depends on a lot more state than we have
                    # available currently in our mocks. So we have to build
                    # the SQL ourselves. It's not a lot of work, fortunately.
                    #
                    # For reference, this is what we'd ideally do:
                    #
                    #     sql.append('%s;' % schema_editor._create_fk_sql(
                    #         rel_class, f,
                    #         '_fk_%(to_table)s_%(to_column)s'))
                    #
                    rel_meta = rel_class._meta
                    to_column = (
                        meta.get_field(get_remote_field(f).field_name)
                        .column
                    )

                    suffix = '_fk_%(to_table)s_%(to_column)s' % {
                        'to_table': meta.db_table,
                        'to_column': to_column,
                    }

                    name = create_index_name(connection=connection,
                                             table_name=rel_meta.db_table,
                                             col_names=[f.column],
                                             suffix=suffix)

                    create_sql = schema_editor.sql_create_fk % {
                        'table': qn(rel_meta.db_table),
                        'name': qn(name),
                        'column': qn(f.column),
                        'to_table': qn(meta.db_table),
                        'to_column': qn(to_column),
                        'deferrable': connection.ops.deferrable_sql(),
                    }

                    sql.append('%s;' % create_sql)

            del refs[model]

        return sql
    else:
        # Django < 1.7
        return connection.creation.sql_for_pending_references(
            model, color.no_style(), refs)


def create_index_name(connection, table_name, field_names=[], col_names=[],
                      unique=False, suffix=''):
    """Return the name for an index for a field.

    This provides compatibility with all supported versions of Django.

    Args:
        connection (object):
            The database connection.

        table_name (str):
            The name of the table.

        field_names (list of str, optional):
            The list of field names for the index.

        col_names (list of str, optional):
            The list of column names for the index.

        unique (bool, optional):
            Whether or not this index is unique.

        suffix (str, optional):
            A suffix for the index. This is only used with Django >= 1.7.

    Returns:
        str:
        The generated index name for this version of Django.
    """
    if BaseDatabaseSchemaEditor:
        # Django >= 1.7
        if unique:
            assert not suffix
            suffix = '_uniq'

        with collect_sql_schema_editor(connection) as schema_editor:
            if django.VERSION[0] >= 2:
                # Django >= 2.0
                table = table_name
            else:
                # Django >= 1.7, < 2.0
                #
                # Fake a table for the call. It only needs _meta.db_table.
                class TempModel(object):
                    class _meta:
                        db_table = table_name

                table = TempModel

            return schema_editor._create_index_name(table,
                                                    col_names or field_names,
                                                    suffix=suffix)
    elif django.VERSION[:2] >= (1, 5):
        # Django >= 1.5, < 1.7
        #
        # This comes from sql_indexes_for_fields().
        index_name = '%s_%s' % (table_name,
                                digest(connection, field_names))

        return truncate_name(index_name, connection.ops.max_name_length())
    else:
        # Django < 1.5
        #
        # This whole block of logic comes from sql_indexes_for_field
        # in django.db.backends.creation, and is designed to match
        # the logic for the past few versions of Django.
        if supports_index_together:
            # Starting in Django 1.5, the _digest is passed a raw
            # list. While this is probably a bug (digest should
            # expect a string), we still need to retain
            # compatibility.
            #
            # It also uses the field name, and not the column name.
            column = field_names[0]
        else:
            column = col_names[0]

        column = digest(connection, column)

        return truncate_name('%s_%s' % (table_name, column),
                             connection.ops.max_name_length())


def create_index_together_name(connection, table_name, field_names):
    """Return the name of an index for an index_together.

    This provides compatibility with all supported versions of Django >= 1.5.
    Prior versions don't support index_together.

    Args:
        connection (object):
            The database connection.

        table_name (str):
            The name of the table.

        field_names (list of str):
            The list of field names indexed together.

    Returns:
        str:
        The generated index name for this version of Django.
    """
    if BaseDatabaseSchemaEditor:
        # Django >= 1.7
        #
        # Starting in 1.7, the index_together indexes were given a "_idx"
        # suffix.
        return create_index_name(connection, table_name, field_names,
                                 field_names, suffix='_idx')
    else:
        # Django < 1.7
        #
        # index_together was introduced in Django 1.5, and prior to 1.7, the
        # format was identical to that of normal indexes.
        assert django.VERSION[:2] >= (1, 5)

        index_name = '%s_%s' % (table_name, digest(connection, field_names))

        return truncate_name(index_name, connection.ops.max_name_length())


def create_constraint_name(connection, r_col, col, r_table, table):
    """Return the name of a constraint.

    This provides compatibility with all supported versions of Django.

    Args:
        connection (object):
            The database connection.

        r_col (str):
            The column name for the source of the relation.

        col (str):
            The column name for the "to" end of the relation.

        r_table (str):
            The table name for the source of the relation.

        table (str):
            The table name for the "to" end of the relation.

    Returns:
        str:
        The generated constraint name for this version of Django.
    """
    if BaseDatabaseSchemaEditor:
        suffix = '_fk_%(to_table)s_%(to_column)s' % {
            'to_table': table,
            'to_column': col,
        }

        # No need to truncate here, since create_index_name() will do it for
        # us.
        return create_index_name(connection, r_table, col_names=[r_col],
                                 suffix=suffix)
    else:
        return truncate_name(
            '%s_refs_%s_%s' % (r_col, col, digest(connection, r_table, table)),
            connection.ops.max_name_length())


def db_router_allows_syncdb(database, model_cls):
    """Return whether a database router allows syncdb operations for a model.

    This will only return ``True`` for Django 1.6 and older and if the
    router allows syncdb operations.

    Args:
        database (unicode):
            The name of the database.

        model_cls (type):
            The model class.

    Returns:
        bool:
        ``True`` if routers allow syncdb for this model.
    """
    return (django.VERSION[:2] <= (1, 6) and
            router.allow_syncdb(database, model_cls))


def db_router_allows_migrate(database, app_label, model_cls):
    """Return whether a database router allows migrate operations for a model.

    This will only return ``True`` for Django 1.7 and newer and if the
    router allows migrate operations. This is compatible with both the
    Django 1.7 and 1.8+ versions of ``allow_migrate``.

    Args:
        database (unicode):
            The name of the database.

        app_label (unicode):
            The application label.

        model_cls (type):
            The model class.

    Returns:
        bool:
        ``True`` if routers allow migrate for this model.
    """
    if django.VERSION[:2] >= (1, 8):
        return router.allow_migrate_model(database, model_cls)
    elif django.VERSION[:2] == (1, 7):
        return router.allow_migrate(database, model_cls)
    else:
        return False


def db_router_allows_schema_upgrade(database, app_label, model_cls):
    """Return whether a database router allows a schema upgrade for a model.

    This is a convenience wrapper around :py:func:`db_router_allows_migrate`
    and :py:func:`db_router_allows_syncdb`.

    Args:
        database (unicode):
            The name of the database.

        app_label (unicode):
            The application label.

        model_cls (type):
            The model class.

    Returns:
        bool:
        ``True`` if routers allow migrate for this model.
    """
    if django.VERSION[:2] >= (1, 7):
        return db_router_allows_migrate(database, app_label, model_cls)
    else:
        return db_router_allows_syncdb(database, model_cls)


def db_get_installable_models_for_app(app, db_state):
    """Return models that can be installed in a database.

    Args:
        app (module):
            The models module for the app.

        db_state (django_evolution.db.state.DatabaseState):
            The introspected state of the database.
    """
    app_label = get_app_label(app)

    # On Django >= 1.7, models for a M2M field will be created automatically,
    # so we don't want to include them in any results.
    #
    # On Django < 1.7, we need to explicitly return these models.
    include_auto_created = apps is None

    return [
        model
        for model in get_models(app, include_auto_created=include_auto_created)
        if (not db_state.has_model(model) and
            db_router_allows_schema_upgrade(db_state.db_name, app_label,
                                            model))
    ]


__all__ = [
    'atomic',
    'create_constraint_name',
    'create_index_name',
    'create_index_together_name',
    'db_get_installable_models_for_app',
    'db_router_allows_migrate',
    'db_router_allows_schema_upgrade',
    'db_router_allows_syncdb',
    'digest',
    'sql_add_constraints',
    'sql_create_app',
    'sql_create_models',
    'sql_create_for_many_to_many_field',
    'sql_delete',
    'sql_delete_constraints',
    'sql_delete_index',
    'sql_indexes_for_field',
    'sql_indexes_for_fields',
    'sql_indexes_for_model',
    'truncate_name',
]
