from __future__ import unicode_literals


SEQUENCE = []
