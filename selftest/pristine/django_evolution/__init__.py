"""Django Evolution version and package information.

These variables and functions can be used to identify the version of
Review Board. They're largely used for packaging purposes.
"""

from __future__ import unicode_literals


# The version of Django Evolution
#
# This is in the format of:
#
#   (Major, Minor, Micro, alpha/beta/rc/final, Release Number, Released)
#
VERSION = (2, 4, 2, 'alpha', 0, False)


def get_version_string():
    version = '%s.%s' % (VERSION[0], VERSION[1])

    if VERSION[2]:
        version += ".%s" % VERSION[2]

    if VERSION[3] != 'final':
        if VERSION[3] == 'rc':
            version += ' RC%s' % VERSION[4]
        else:
            version += ' %s %s' % (VERSION[3], VERSION[4])

    if not is_release():
        version += " (dev)"

    return version


def get_package_version():
    version = '%s.%s' % (VERSION[0], VERSION[1])

    if VERSION[2]:
        version += ".%s" % VERSION[2]

    tag = VERSION[3]

    if tag != 'final':
        if tag == 'alpha':
            tag = 'a'
        elif tag == 'beta':
            tag = 'b'

        version += '%s%s' % (tag, VERSION[4])

    return version


def is_release():
    return VERSION[5]


__version_info__ = VERSION[:-1]
__version__ = get_package_version()
