"""Signals for monitoring the evolution process."""

from __future__ import unicode_literals

from django.dispatch import Signal


#: Emitted when an Evolver begins evolving.
evolving = Signal()

#: Emitted when an Evolver finishes evolving.
evolved = Signal()

#: Emitted when an Evolver fails evolving.
#:
#: Args:
#:     exception (Exception):
#:         The exception raised when evolution failed.
evolving_failed = Signal()

#: Emitted when an evolution is about to be applied to an app.
#:
#: Version Changed:
#:     2.1:
#:     Added the ``evolutions`` argument.
#:
#: Args:
#:     app_label (unicode):
#:         The label of the application being applied.
#:
#:     task (django_evolution.evolve.EvolveAppTask):
#:         The task evolving the app.
#:
#:     evolutions (list of django_evolution.models.Evolution):
#:         The list of evolutions that will be applied.
applying_evolution = Signal()

#: Emitted when an evolution has been applied to an app.
#:
#: Version Changed:
#:     2.1:
#:     Added the ``evolutions`` argument.
#:
#: Args:
#:     app_label (unicode):
#:         The label of the application being applied.
#:
#:     task (django_evolution.evolve.EvolveAppTask):
#:         The task that evolved the app.
#:
#:     evolutions (list of django_evolution.models.Evolution):
#:         The list of evolutions that were applied.
applied_evolution = Signal()

#: Emitted when a migration is about to be applied to an app.
#:
#: Args:
#:     migration (django.db.migrations.migration.Migration):
#:         The migration that's being applied.
applying_migration = Signal()

#: Emitted when a migration has been applied to an app.
#:
#: Args:
#:     migration (django.db.migrations.migration.Migration):
#:         The migration that was applied.
applied_migration = Signal()

#: Emitted when creating new models for an app outside of a migration.
#:
#: Note:
#:     There's no guarantee that a :py:data:`created_models` will be emitted
#:     in-between two :py:data:`creating_models`.
#:
#: Args:
#:     app_label (unicode):
#:         The app label for the models being created.
#:
#:     model_names (list of unicode):
#:         The list of models being created.
creating_models = Signal()

#: Emitted when finished creating new models for an app outside of a migration.
#:
#: Note:
#:     There's no guarantee that a :py:data:`creating_models` will be emitted
#:     in-between two :py:data:`created_models`.
#:
#: Args:
#:     migration (django.db.migrations.migration.Migration):
#:         The migration that was applied.
#:
#:     model_names (list of unicode):
#:         The list of models that were created.
created_models = Signal()
