"""Evolution operations backend for SQLite."""

from __future__ import unicode_literals

from collections import OrderedDict

from django.db import models
from django.db.backends.sqlite3.base import Database

from django_evolution.compat import six
from django_evolution.compat.db import (create_index_name,
                                        sql_indexes_for_model)
from django_evolution.compat.models import (get_remote_field,
                                            get_remote_field_model)
from django_evolution.db.common import (AlterTableSQLResult,
                                        BaseEvolutionOperations,
                                        SQLResult)
from django_evolution.utils.sql import NewTransactionSQL, NoTransactionSQL


TEMP_TABLE_NAME = 'TEMP_TABLE'


class SQLiteAlterTableSQLResult(AlterTableSQLResult):
    """Represents SQL statements used to rebuild a table on SQLite.

    Unlike most databases, SQLite doesn't offer typical ALTER TABLE support,
    instead requiring a full table rebuild and data transfer. This class
    handles that process, allowing operations for the rebuild (adding,
    deleting, or changing columns) to be batched together.

    The rebuild uses the step-by-step instructions recommended by SQLite. It
    creates a new table with the desired schema, copies all data from the old
    table, drops the old table, and then renames the new table over.

    It can also update the newly-populated rows in the new table with new
    initial data, if needed by a new column.
    """

    def to_sql(self):
        """Return a list of SQL statements for the table rebuild.

        Any :py:attr:`alter_table` operations will be collapsed together into
        a single table rebuild.

        Returns:
            list of unicode:
            The list of SQL statements to run for the rebuild.
        """
        evolver = self.evolver
        model = self.model
        connection = evolver.connection
        qn = connection.ops.quote_name
        table_name = model._meta.db_table

        # Calculate some state for the rebuild operations, based on the
        # Alter Table ops that were provided.
        added_fields = []
        deleted_columns = set()
        renamed_columns = {}
        replaced_fields = {}
        added_constraints = []
        new_initial = {}
        reffed_renamed_cols = []
        added_field_db_indexes = []
        dropped_field_db_indexes = []
        needs_rebuild = False
        sql = []

        for item in self.alter_table:
            op = item['op']

            if op == 'ADD COLUMN':
                needs_rebuild = True
                field = item['field']

                if field.db_type(connection=connection) is not None:
                    initial = item['initial']

                    added_fields.append(field)

                    if initial is not None:
                        new_initial[field.column] = initial
            elif op == 'DELETE COLUMN':
                needs_rebuild = True
                deleted_columns.add(item['column'])
            elif op == 'RENAME COLUMN':
                needs_rebuild = True
                old_field = item['old_field']
                new_field = item['new_field']
                old_column = old_field.column
                new_column = new_field.column

                renamed_columns[old_column] = new_field.column
                replaced_fields[old_column] = new_field

                if evolver.is_column_referenced(table_name, old_column):
                    reffed_renamed_cols.append((old_column, new_column))
            elif op == 'MODIFY COLUMN':
                needs_rebuild = True
                field = item['field']
                initial = item['initial']

                replaced_fields[field.column] = field

                if initial is not None:
                    new_initial[field.column] = initial
            elif op == 'CHANGE COLUMN TYPE':
                needs_rebuild = True
                old_field = item['old_field']
                new_field = item['new_field']
                column = old_field.column

                replaced_fields[column] = new_field
            elif op == 'ADD CONSTRAINTS':
                needs_rebuild = True
                added_constraints = item['constraints']
            elif op == 'REBUILD':
                # We're just rebuilding, not changing anything about it.
                # This is used to get rid of auto-indexes from SQLite.
                needs_rebuild = True
            elif op == 'ADD DB INDEX':
                field = item['field']
                added_field_db_indexes.append(field)

                # If the table is rebuilt, the field indexes are recreated
                # from the fields used for the new table. Make sure that's
                # the field with the new db_index state, which may have
                # been built from a different model instance than ours
                # when operations are merged.
                replaced_fields.setdefault(field.column, field)
            elif op == 'DROP DB INDEX':
                field = item['field']
                dropped_field_db_indexes.append(field)
                replaced_fields.setdefault(field.column, field)
            else:
                raise ValueError('%s is not a valid Alter Table op for SQLite'
                                 % op)

        for field in dropped_field_db_indexes:
            sql += self.normalize_sql(evolver.drop_index(model, field))

        if not needs_rebuild:
            # We don't have any operations requiring a full table rebuild.
            # We may have indexes to add (which would normally be added
            # along with the rebuild).
            for field in added_field_db_indexes:
                sql += self.normalize_sql(evolver.create_index(model, field))

            # Like in a table rebuild, the indexes must be created before
            # running the queued SQL. That SQL may rename the column (when
            # db_column is changed along with db_index), and the statements
            # for the index were built using the old column name.
            return self.pre_sql + sql + self.sql + self.post_sql

        # Remove any Generic Fields.
        old_fields = [
            _field
            for _field in model._meta.local_fields
            if _field.db_type(connection=connection) is not None
        ]

        # Only the existing columns can have been deleted. A column that's
        # deleted and then added back under the same name must be kept.
        new_fields = [
            replaced_fields.get(_field.column, _field)
            for _field in old_fields
            if _field.column not in deleted_columns
        ] + [
            replaced_fields.get(_field.column, _field)
            for _field in added_fields
        ]

        field_values = OrderedDict()

        for field in old_fields:
            old_column = field.column

            if old_column not in deleted_columns:
                new_column = renamed_columns.get(old_column, old_column)

                field_values[new_column] = qn(old_column)

        field_initials = {}

        # If we have any new fields, add their defaults.
        if new_initial:
            for column, initial in six.iteritems(new_initial):
                # Note that initial will only be None if null=True. Otherwise,
                # it will be set to a user-defined callable or the default
                # AddFieldInitialCallback, which will raise an exception in
                # common code before we get too much further.
                if initial is not None:
                    initial, embed_initial = evolver.normalize_initial(initial)

                    if embed_initial:
                        field_values[column] = initial
                    else:
                        field_initials[column] = initial

                        if column in field_values:
                            field_values[column] = \
                                'coalesce(%s, %%s)' % qn(column)
                        else:
                            field_values[column] = '%s'

        # The SQLite documentation defines the steps that should be taken to
        # safely alter the schema for a table. Unlike most types of databases,
        # SQLite doesn't provide a general ALTER TABLE that can modify any
        # part of the table, so for most things, we require a full table
        # rebuild, and it must be done correctly.
        #
        # Step 1: Create a temporary table representing the new table
        #         schema. This will be temporary, and we don't need to worry
        #         about any indexes yet. Later, this will become the new
        #         table.
        columns_sql = []
        columns_sql_params = []

        for field in new_fields:
            if not isinstance(field, models.ManyToManyField):
                schema = evolver.build_column_schema(model=model,
                                                     field=field)

                columns_sql.append(
                    '%s %s %s'
                    % (qn(schema['name']),
                       schema['db_type'],
                       ' '.join(schema['definition'])))
                columns_sql_params += schema['definition_sql_params']

        constraints_sql = []

        if added_constraints:
            # Django >= 2.2
            with connection.schema_editor(collect_sql=True) as schema_editor:
                for constraint in added_constraints:
                    constraint_sql = constraint.constraint_sql(model,
                                                               schema_editor)

                    if constraint_sql:
                        constraints_sql.append(constraint_sql)

        sql.append((
            'CREATE TABLE %s (%s);'
            % (qn(TEMP_TABLE_NAME),
               ', '.join(columns_sql + constraints_sql)),
            tuple(columns_sql_params),
        ))

        # Step 2: Copy over any data from the old table into the new one.
        sql.append((
            'INSERT INTO %s (%s) SELECT %s FROM %s;'
            % (
                qn(TEMP_TABLE_NAME),
                ', '.join(
                    qn(column)
                    for column in six.iterkeys(field_values)
                ),
                ', '.join(
                    six.text_type(_value)
                    for _value in six.itervalues(field_values)
                ),
                qn(table_name),
            ),
            # The parameters must be in the order of their placeholders,
            # which is the order of the columns being selected.
            tuple(
                field_initials[column]
                for column in six.iterkeys(field_values)
                if column in field_initials
            )
        ))

        # Step 3: Drop the old table, making room for us to recreate the
        #         new schema table in its place.
        sql += evolver.delete_table(table_name).to_sql()

        # Step 4: Move over the temp table to the destination table name.
        sql += evolver.rename_table(model=model,
                                    old_db_table=TEMP_TABLE_NAME,
                                    new_db_table=table_name).to_sql()

        # Step 5: Restore any indexes.
        class _Model(object):
            class _meta(object):
                db_table = table_name
                local_fields = new_fields
                db_tablespace = None
                managed = True
                proxy = False
                swapped = False
                index_together = []
                indexes = []

        sql += sql_indexes_for_model(connection, _Model)

        # We've added all the indexes above. Any that were already there
        # will be in the database state. However, if we've *specifically*
        # had requests to add indexes, those ones won't be. We'll need to
        # add them now.
        #
        # The easiest way is to use the same SQL generation functions we'd
        # normally use to generate per-field indexes, since those track
        # database state. We won't actually use the SQL.
        for field in added_field_db_indexes:
            evolver.create_index(model, field)

        if reffed_renamed_cols:
            # One or more tables referenced one or more renamed columns on
            # this table, so now we need to update them.
            #
            # There are issues with renaming columns referenced by a foreign
            # key in SQLite. Historically, we've allowed it, but the reality
            # is that it can result in those foreign keys pointing to the
            # wrong (old) column, causing any foreign key reference checks to
            # fail. This is noticeable with Django 2.2+, which explicitly
            # checks in its schema editor (which we invoke).
            #
            # We don't actually want or need to do a table rebuild on these.
            # SQLite has another trick (and this is recommended in their
            # documentation). We want to go through each of the tables that
            # reference these columns and rewrite their table creation SQL
            # in the sqlite_master table, and then tell SQLite to apply the
            # new schema.
            #
            # This requires that we enable writable schemas and bump up the
            # SQLite schema version for this database. This must be done at
            # the moment we want to run this SQL statement, so we'll be
            # adding this as a dynamic function to run later, rather than
            # hard-coding any SQL now.
            #
            # Most of this can be done in a transaction, but not all. We have
            # to execute much of this in its own transaction, and then write
            # the new schema to disk with a VACUUM outside of a transaction.
            def _update_refs(cursor):
                schema_version = \
                    cursor.execute('PRAGMA schema_version').fetchone()[0]

                refs_template = ' REFERENCES "%s" ("%%s") ' % table_name

                return [
                    NewTransactionSQL(
                        [
                            # Allow us to update the database schema by
                            # manipulating the sqlite_master table.
                            'PRAGMA writable_schema = 1;',
                        ] + [
                            # Update all tables that reference any renamed
                            # columns, setting their references to point to
                            # the new names.
                            ('UPDATE sqlite_master SET sql ='
                             ' replace(sql, %s, %s);',
                             (refs_template % old_column,
                              refs_template % new_column))
                            for old_column, new_column in reffed_renamed_cols
                        ] + [
                            # Tell SQLite that we're done writing the schema,
                            # and give it a new schema version number.
                            ('PRAGMA schema_version = %s;'
                             % (schema_version + 1)),

                            'PRAGMA writable_schema = 0;',

                            # Make sure everything went well. We want to bail
                            # here before we commit the transaction if
                            # anything goes wrong.
                            'PRAGMA integrity_check;',
                        ]
                    ),
                    NoTransactionSQL(['VACUUM;']),
                ]

            sql.append(_update_refs)

        return self.pre_sql + sql + self.sql + self.post_sql


class EvolutionOperations(BaseEvolutionOperations):
    """Evolution operations backend for SQLite."""

    name = 'SQLite'

    supported_change_meta = dict(
        BaseEvolutionOperations.supported_change_meta,
        **{
            'db_table_comment': False,
        })

    alter_table_sql_result_cls = SQLiteAlterTableSQLResult

    _can_rename_cols_min_version = (3, 26, 0)
    _can_rename_cols = (Database.sqlite_version_info >=
                        _can_rename_cols_min_version)

    def get_deferrable_sql(self):
        """Return the SQL for marking a reference as deferrable.

        Despite SQLite3 supporting this, the Django SQLite3 backend does not
        implement the standard function
        (:py:meth:`BaseDatabaseOperations.deferrable_sql()
        <django.db.backends.base.operations.BaseDatabaseOperations>`) for
        this.

        This provides a value used internally for building references.

        Version Added:
            2.2

        Returns:
            unicode:
            The SQL for marking a reference as deferrable.
        """
        return 'DEFERRABLE INITIALLY DEFERRED'

    def rename_table(self, model, old_db_table, new_db_table):
        """Rename a table.

        Args:
            model (django_evolution.mock_models.MockModel):
                The model representing the table to rename.

            old_db_table (unicode):
                The old table name.

            new_db_table (unicode):
                The new table name.

        Returns:
            django_evolution.db.sql_result.SQLResult:
            The resulting SQL for renaming the table.
        """
        sql_result = SQLResult()

        if old_db_table != new_db_table:
            sql_result.add(self.get_rename_table_sql(model, old_db_table,
                                                     new_db_table))

        return sql_result

    def delete_column(self, model, field):
        """Delete a column from the table.

        Args:
            model (type):
                The :py:class:`~django.db.models.Model` class representing
                the table to delete the column from.

            field (django.db.models.Field):
                The field representing the column to delete.

        Returns:
            django_evolution.db.sql_result.SQLResult:
            The resulting SQL for rebuilding the table.
        """
        return SQLiteAlterTableSQLResult(
            evolver=self,
            model=model,
            alter_table=[
                {
                    'op': 'DELETE COLUMN',
                    'column': field.column,
                },
            ])

    def rename_column(self, model, old_field, new_field):
        """Rename a column on a table.

        Args:
            model (type):
                The :py:class:`~django.db.models.Model` class representing
                the table to rename the column on.

            old_field (django.db.models.Field):
                The field representing the old column.

            new_field (django.db.models.Field):
                The field representing the new column.

        Returns:
            django_evolution.db.sql_result.SQLResult:
            The resulting SQL for rebuilding the table.
        """
        if old_field.column == new_field.column:
            return []

        if self._can_rename_cols:
            qn = self.connection.ops.quote_name

            return SQLResult([
                'ALTER TABLE %s RENAME COLUMN %s TO %s;'
                % (qn(model._meta.db_table),
                   qn(old_field.column),
                   qn(new_field.column))
            ])
        else:
            return SQLiteAlterTableSQLResult(
                evolver=self,
                model=model,
                alter_table=[
                    {
                        'op': 'RENAME COLUMN',
                        'old_field': old_field,
                        'new_field': new_field,
                    },
                ])

    def add_column(self, model, field, initial):
        """Add a column to the table.

        Args:
            model (type):
                The :py:class:`~django.db.models.Model` class representing
                the table to add the column to.

            field (django.db.models.Field):
                The field representing the column to add.

            initial (object);
                The initial data to set for the column. If ``None``, the
                data will not be set.

                This will be required for ``NOT NULL`` columns.

        Returns:
            django_evolution.db.sql_result.SQLResult:
            The resulting SQL for rebuilding the table.
        """
        opts = model._meta
        table_name = opts.db_table

        if field.unique or field.primary_key:
            self.database_state.add_index(
                table_name=table_name,
                index_name=self.get_new_constraint_name(table_name,
                                                        field.column),
                columns=[field.column],
                unique=True)
        elif field.db_index:
            self.database_state.add_index(
                table_name=table_name,
                index_name=create_index_name(self.connection,
                                             table_name,
                                             field_names=[field.name],
                                             col_names=[field.column]),
                columns=[field.column])

        return SQLiteAlterTableSQLResult(
            evolver=self,
            model=model,
            alter_table=[
                {
                    'op': 'ADD COLUMN',
                    'field': field,
                    'initial': initial,
                },
            ])

    def change_column_attr_null(self, model, mutation, field, old_value,
                                new_value):
        """Change a column's NULL flag.

        Args:
            model (type):
                The :py:class:`~django.db.models.Model` class representing
                the table to change the column on.

            mutation (django_evolution.mutations.BaseModelMutation):
                The mutation making this change.

            field (django.db.models.Field):
                The field representing the column to change.

            old_value (bool, unused):
                The old null flag.

            new_value (bool):
                The new null flag.

        Returns:
            django_evolution.db.sql_result.SQLResult:
            The resulting SQL for rebuilding the table.
        """
        return self._change_attribute(model=model,
                                      field=field,
                                      attr_name='null',
                                      new_attr_value=new_value,
                                      initial=mutation.initial)

    def change_column_attr_decimal_type(self, model, mutation, field,
                                        new_max_digits, new_decimal_places):
        """Return SQL for changing a column's decimal_places attribute.

        This is used for :py:class:`~django.db.models.DecimalField` and
        subclasses to change the maximum number of digits or decimal places.
        As these are used together as a column type, they must be considered
        together as one attribute change.

        Args:
            model (type):
                The model class that owns the field.

            mutation (django_evolution.mutations.BaseModelMutation):
                The mutation applying this change.

            field (django.db.models.DecimalField):
                The field being modified.

            new_max_digits (int):
                The new value for ``max_digits``. If ``None``, it wasn't
                provided in the attribute change.

            new_decimal_places (int):
                The new value for ``decimal_places``. If ``None``, it wasn't
                provided in the attribute change.

        Returns:
            django_evolution.db.sql_result.AlterTableSQLResult:
            The SQL for modifying the value.
        """
        if new_max_digits is not None:
            field.max_digits = new_max_digits

        if new_decimal_places is not None:
            field.decimal_places = new_decimal_places

        return SQLiteAlterTableSQLResult(
            evolver=self,
            model=model,
            alter_table=[
                {
                    'op': 'MODIFY COLUMN',
                    'field': field,
                    'initial': None,
                },
            ])

    def change_column_attr_max_length(self, model, mutation, field, old_value,
                                      new_value):
        """Change a column's max length.

        Args:
            model (type):
                The :py:class:`~django.db.models.Model` class representing
                the table to change the column on.

            mutation (django_evolution.mutations.BaseModelMutation):
                The mutation making this change.

            field (django.db.models.Field):
                The field representing the column to change.

            old_value (int, unused):
                The old max length.

            new_value (int, unused):
                The new max length.

        Returns:
            django_evolution.db.sql_result.SQLResult:
            The resulting SQL for rebuilding the table.
        """
        return self._change_attribute(model=model,
                                      field=field,
                                      attr_name='max_length',
                                      new_attr_value=new_value)

    def change_column_type(self, model, old_field, new_field, new_attrs):
        """Return SQL to change the type of a column.

        Version Added:
            2.2

        Args:
            model (type):
                The type of model owning the field.

            old_field (django.db.models.Field):
                The old field.

            new_field (django.db.models.Field):
                The new field.

            new_attrs (dict):
                New attributes set in the
                :py:class:`~django_evolution.mutations.change_field.
                ChangeField`.

        Returns:
            SQLiteAlterTableSQLResult:
            The SQL statements for changing the column type.
        """
        return SQLiteAlterTableSQLResult(
            evolver=self,
            model=model,
            alter_table=[{
                'op': 'CHANGE COLUMN TYPE',
                'old_field': old_field,
                'new_field': new_field,
            }]
        )

    def get_change_unique_sql(self, model, field, new_unique_value,
                              constraint_name, initial):
        """Change a column's unique flag.

        Args:
            model (type):
                The :py:class:`~django.db.models.Model` class representing
                the table to change the column on.

            mutation (django_evolution.mutations.BaseModelMutation):
                The mutation making this change.

            field (django.db.models.Field):
                The field representing the column to change.

            old_value (bool, unused):
                The old unique flag.

            new_value (bool, unused):
                The new unique flag.

        Returns:
            django_evolution.db.sql_result.SQLResult:
            The resulting SQL for rebuilding the table.
        """
        return self._change_attribute(model=model,
                                      field=field,
                                      attr_name='_unique',
                                      new_attr_value=new_unique_value)

    def get_update_table_constraints_sql(self, model, old_constraints,
                                         new_constraints, to_add, to_remove):
        """Return SQL for updating the constraints on a table.

        This will perform a table rebuild, including only any new constraints
        in the new schema.

        Args:
            model (django.db.models.Model):
                The model being changed.

            old_constraints (list of
                             django.db.models.constraints.BaseConstraint):
                The old constraints pre-evolution.

            new_constraints (list of
                             django.db.models.constraints.BaseConstraint):
                The new constraints post-evolution.

            to_add (list of django.db.models.constraints.BaseConstraint):
                A list of new constraints to add to the database that weren't
                set before.

            to_remove (list of django.db.models.constraints.BaseConstraint):
                A list of old constraints to remove from the database that
                aren't set now.

        Returns:
            django_evolution.sql_result.SQLResult:
            The SQL statements for changing the constraints.
        """
        alter_table_items = []

        if to_add:
            alter_table_items.append({
                'op': 'ADD CONSTRAINTS',
                'constraints': new_constraints,
            })
        else:
            assert to_remove

            # We won't be explicitly dropping anything. We'll just be doing
            # a normal table rebuild.
            alter_table_items.append({
                'op': 'REBUILD',
            })

        return SQLiteAlterTableSQLResult(
            evolver=self,
            model=model,
            alter_table=alter_table_items)

    def change_column_attr_db_index(self, model, mutation, field, old_value,
                                    new_value):
        """Return the SQL for creating/dropping indexes for a column.

        If setting ``db_index=True``, SQL for generating the index will be
        returned immediately.

        If setting ``db_index=False``, the dropping of the index will be
        scheduled as an Alter Table operation, ensuring it's dropped
        immediately (and cached/queued database index state updated) before the
        table is rebuilt, never later.

        Version Added:
            2.3

        Args:
            model (django.db.models.Model):
                The model being changed.

            mutation (django_evolution.mutations.BaseModelMutation):
                The mutation applying this change.

            field (django.db.models.DecimalField):
                The field being modified.

            old_value (bool):
                The old value for ``db_index``.

            new_value (bool):
                The new value for ``db_index``.

        Returns:
            django_evolution.db.sql_result.SQLResult:
            The resulting SQL for creating the index or scheduling a drop.
        """
        field.db_index = new_value

        if new_value:
            op = 'ADD DB INDEX'
        else:
            op = 'DROP DB INDEX'

        return SQLiteAlterTableSQLResult(
            evolver=self,
            model=model,
            alter_table=[
                {
                    'op': op,
                    'field': field,
                },
            ])

    def get_drop_unique_constraint_sql(self, model, index_name):
        """Return SQL for dropping unique constraints.

        Args:
            model (type):
                The :py:class:`~django.db.models.Model` class representing
                the table to drop unique constraints on.

            index_name (unicode):
                The name of the unique constraint index to drop.

        Returns:
            django_evolution.db.sql_result.SQLResult:
            The resulting SQL for rebuilding the table.
        """
        if index_name.startswith('sqlite_autoindex'):
            # This is an index generated by SQLite, and cannot be deleted
            # explicitly without a full table rebuild. These are generated
            # on Django 1.8 and lower for any unique_together constraints.
            return SQLiteAlterTableSQLResult(
                evolver=self,
                model=model,
                alter_table=[
                    {
                        'op': 'REBUILD',
                    },
                ])
        else:
            # This is a normal, explicitly-created index. We should be able
            # to drop it with a standard DROP INDEX statement.
            #
            # We should get these by default for tables created on Django 1.9
            # and later.
            return (
                super(EvolutionOperations, self)
                .get_drop_unique_constraint_sql(model, index_name)
            )

    def get_indexes_for_table(self, table_name):
        """Return all known indexes on a table.

        This is a fallback used only on Django 1.6, due to lack of proper
        introspection on that release.

        Args:
            table_name (unicode):
                The name of the table.

        Returns:
            dict:
            A dictionary mapping index names to a dictionary containing:

            ``columns`` (:py:class:`list`):
                The list of columns that the index covers.

            ``unique`` (:py:class:`bool`):
                Whether this is a unique index.
        """
        cursor = self.connection.cursor()
        qn = self.connection.ops.quote_name
        indexes = {}

        cursor.execute('PRAGMA index_list(%s);' % qn(table_name))

        for row in list(cursor.fetchall()):
            index_name = row[1]
            indexes[index_name] = {
                'unique': bool(row[2]),
                'columns': []
            }

            cursor.execute('PRAGMA index_info(%s)' % qn(index_name))

            for index_info in cursor.fetchall():
                # Column name
                indexes[index_name]['columns'].append(index_info[2])

        return indexes

    def is_column_referenced(self, reffed_table_name, reffed_col_name):
        """Return whether a column on a table is referenced by another table.

        Args:
            reffed_table_name (unicode):
                The name of the table that may be referenced.

            reffed_col_name (unicode):
                The name of the column that may be referenced.

        Returns:
            bool:
            ``True`` if this table and column are referenced by another table,
            or ``False`` if it's not referenced.
        """
        connection = self.connection
        introspection = connection.introspection
        qn = connection.ops.quote_name

        cursor = connection.cursor()

        try:
            for table_info in introspection.get_table_list(cursor):
                if isinstance(table_info, six.text_type):
                    # Django <= 1.7
                    table_name = table_info
                else:
                    # Django >= 1.8
                    table_name = table_info.name

                if table_name != reffed_table_name:
                    cursor.execute('PRAGMA foreign_key_list(%s)'
                                   % qn(table_name))

                    for row in cursor.fetchall():
                        if (reffed_table_name == row[2] and
                            reffed_col_name == row[4]):
                            return True
        finally:
            cursor.close()

        return False

    def _change_attribute(self, model, field, attr_name, new_attr_value,
                          initial=None):
        """Change an attribute on a column.

        Args:
            model (type):
                The :py:class:`~django.db.models.Model` class representing
                the table to change the column on.

            field (django.db.models.Field):
                The field representing the column to change.

            attr_name (unicode):
                The name of the attribute to change.

            new_attr_value (unicode):
                The new attribute value.

            initial (object, optional):
                The initial data to set for this attribute for existing
                rows.

        Returns:
            django_evolution.db.sql_result.SQLResult:
            The resulting SQL for rebuilding the table.
        """
        setattr(field, attr_name, new_attr_value)

        return SQLiteAlterTableSQLResult(
            evolver=self,
            model=model,
            alter_table=[
                {
                    'op': 'MODIFY COLUMN',
                    'field': field,
                    'initial': initial,
                },
            ])
