"""Database state tracking for in-progress evolutions."""

from __future__ import unicode_literals

from copy import deepcopy

from django.db import connections

from django_evolution.compat import six
from django_evolution.compat.db import convert_table_name
from django_evolution.db import EvolutionOperationsMulti
from django_evolution.errors import DatabaseStateError


class IndexState(object):
    """An index recorded in the database state."""

    def __init__(self, name, columns=[], unique=False):
        """Initialize the index state.

        Args:
            name (unicode, optional):
                The name of the index.

            columns (list of unicode, optional):
                A list of columns that the index is comprised of.

            unique (bool, optional):
                Whether this is a unique index.
        """
        assert name

        self.name = name
        self.columns = columns
        self.unique = unique

    def __eq__(self, other_state):
        """Return whether two index states are equal.

        Args:
            other_state (IndexState):
                The other index state to compare to.

        Returns:
            bool:
            ``True`` if the two index states are equal. ``False`` if they
            are not.
        """
        return (self.name == other_state.name and
                self.columns == other_state.columns and
                self.unique == other_state.unique)

    def __hash__(self):
        """Return a hash representation of the index.

        Returns:
            int:
            The hash representation.
        """
        return hash(repr(self))

    def __repr__(self):
        """Return a string representation of the index state.

        Returns:
            unicode:
            A string representation of the index.
        """
        return '<IndexState(name=%r, columns=%r, unique=%r)>' % (
            self.name, self.columns, self.unique)


class DatabaseState(object):
    """Tracks some useful state in the database.

    This primarily tracks indexes associated with tables, allowing them to be
    scanned from the database, explicitly added, removed, or cleared.
    """

    def __init__(self, db_name, scan=True):
        """Initialize the state.

        Args:
            db_name (unicode):
                The name of the database.

            scan (bool, optional):
                Whether to automatically scan state from the database during
                initialization. By default, information is scanned.
        """
        connection = connections[db_name]

        self.db_name = db_name
        self._tables = {}
        self._norm_table_name = \
            lambda name: convert_table_name(connection, name)

        if scan:
            self.rescan_tables()

    def clone(self):
        """Clone the database state.

        Returns:
            DatabaseState:
            The cloned copy of the state.
        """
        cloned_sig = DatabaseState(db_name=self.db_name, scan=False)
        cloned_sig._tables = deepcopy(self._tables)

        return cloned_sig

    def add_table(self, table_name):
        """Add a table to track.

        This will add an empty entry for the table to the state.

        Args:
            table_name (unicode):
                The name of the table.
        """
        self._tables[self._norm_table_name(table_name)] = {
            'indexes': {},
            'unique_indexes': {},
        }

    def has_table(self, table_name):
        """Return whether a table is being tracked.

        This does not necessarily mean that the table exists in the database.
        Rather, state for the table is being tracked.

        Args:
            table_name (unicode):
                The name of the table to look up.

        Returns:
            bool:
            ``True`` if the table is being tracked. ``False`` if it is not.
        """
        return self._norm_table_name(table_name) in self._tables

    def has_model(self, model):
        """Return whether a database model is installed in the database.

        Args:
            model (type):
                The model class.

        Returns:
            bool:
            ``True`` if the model has an accompanying table in the database.
            ``False`` if it does not.
        """
        meta = model._meta

        return (self.has_table(meta.db_table) or
                (meta.auto_created and
                 self.has_table(meta.auto_created._meta.db_table)))

    def add_index(self, table_name, index_name, columns, unique=False):
        """Add a table's index to the database state.

        This index can be used for later lookup during the evolution process.
        It won't otherwise be preserved, though the resulting indexes are
        expected to match the result in the database.

        This requires the table to be tracked first.

        Args:
            table_name (unicode):
                The name of the table.

            index_name (unicode):
                The name of the index.

            columns (list of unicode):
                A list of column names the index is comprised of.

            unique (bool, optional):
                Whether this is a unique index.

        Raises:
            django_evolution.errors.DatabaseStateError:
                There was an issue adding this index. Details are in the
                exception's message.
        """
        assert index_name

        table_name = self._norm_table_name(table_name)

        try:
            indexes = self._get_indexes_dict(table_name=table_name,
                                             unique=unique)
        except KeyError:
            raise DatabaseStateError(
                'Unable to add index "%s" to table "%s". The table is not '
                'being tracked in the database state.'
                % (index_name, table_name))

        existing_index = self.get_index(table_name=table_name,
                                        index_name=index_name,
                                        unique=unique)

        if existing_index:
            raise DatabaseStateError(
                'Unable to add index "%s" to table "%s". This index already '
                'exists.'
                % (index_name, table_name))

        indexes[index_name] = IndexState(name=index_name,
                                         columns=columns,
                                         unique=unique)

    def remove_index(self, table_name, index_name, unique=False):
        """Remove an index from the database state.

        This index will no longer be found during lookups when generating
        evolution SQL, even if it exists in the database.

        This requires the table to be tracked first and for the index to
        both exist and match the ``unique`` flag.

        Args:
            table_name (unicode):
                The name of the table.

            index_name (unicode):
                The name of the index.

            unique (bool, optional):
                Whether this is a unique index.

        Raises:
            django_evolution.errors.DatabaseStateError:
                There was an issue removing this index. Details are in the
                exception's message.
        """
        table_name = self._norm_table_name(table_name)

        try:
            indexes = self._get_indexes_dict(table_name=table_name,
                                             unique=unique)
        except KeyError:
            raise DatabaseStateError(
                'Unable to remove index "%s" from table "%s". The table is '
                'not being tracked in the database state.'
                % (index_name, table_name))

        try:
            existing_index = indexes[index_name]
        except KeyError:
            raise DatabaseStateError(
                'Unable to remove index "%s" from table "%s". The index '
                'could not be found.'
                % (index_name, table_name))

        assert unique == existing_index.unique

        del indexes[index_name]

    def remove_column_indexes(self, table_name, column):
        """Remove all recorded indexes that cover a column.

        This is used when a column is deleted, which removes the indexes on
        it from the database.

        Args:
            table_name (unicode):
                The name of the table.

            column (unicode):
                The name of the column being deleted.
        """
        table_name = self._norm_table_name(table_name)

        for unique in (False, True):
            try:
                indexes = self._get_indexes_dict(table_name=table_name,
                                                 unique=unique)
            except KeyError:
                continue

            for index_name, index_state in list(six.iteritems(indexes)):
                if column in index_state.columns:
                    del indexes[index_name]

    def get_index(self, table_name, index_name, unique=False):
        """Return the index state for a given name.

        Args:
            table_name (unicode):
                The name of the table.

            index_name (unicode):
                The name of the index.

            unique (bool, optional):
                Whether this is a unique index.

                Version Added:
                    2.2

        Returns:
            IndexState:
            The state for the index, if found. ``None`` if the index could not
            be found.
        """
        table_name = self._norm_table_name(table_name)

        try:
            return self._get_indexes_dict(table_name=table_name,
                                          unique=unique)[index_name]
        except KeyError:
            return None

    def find_index(self, table_name, columns, unique=False):
        """Find and return an index matching the given columns and flags.

        Args:
            table_name (unicode):
                The name of the table.

            columns (list of unicode):
                The list of columns the index is comprised of.

            unique (bool, optional):
                Whether this is a unique index.

        Returns:
            IndexState:
            The state for the index, if found. ``None`` if an index matching
            the criteria could not be found.
        """
        table_name = self._norm_table_name(table_name)

        for index_state in self.iter_indexes(table_name):
            if (index_state.columns == columns and
                index_state.unique == unique):
                return index_state

        return None

    def clear_indexes(self, table_name):
        """Clear all recorded indexes for a table.

        Args:
            table_name (unicode):
                The name of the table.
        """
        table_name = self._norm_table_name(table_name)

        for unique in (False, True):
            try:
                indexes = self._get_indexes_dict(table_name=table_name,
                                                 unique=unique)
                indexes.clear()
            except KeyError:
                pass

    def iter_indexes(self, table_name):
        """Iterate through all indexes for a table.

        Args:
            table_name (unicode):
                The name of the table.

        Yields:
            IndexState:
            An index in the table.
        """
        table_name = self._norm_table_name(table_name)

        for unique in (False, True):
            try:
                indexes = self._get_indexes_dict(table_name=table_name,
                                                 unique=unique)
            except KeyError:
                continue

            for index_state in six.itervalues(indexes):
                yield index_state

    def rescan_tables(self):
        """Rescan the list of tables from the database.

        This will look up all tables found in the database, along with
        information (such as indexes) on those tables.

        Existing information on the tables will be flushed.
        """
        evolver = EvolutionOperationsMulti(self.db_name).get_evolver()
        connection = evolver.connection
        introspection = connection.introspection
        cursor = connection.cursor()

        for table_name in introspection.get_table_list(cursor):
            # NOTE: The table names are already normalized, so there's no
            #       need to normalize them again.
            if hasattr(table_name, 'name'):
                # In Django >= 1.7, we get back TableInfo namedtuples,
                # which have 'name' and 'type' keys. We don't care about
                # anything but 'name'.
                table_name = table_name.name

            if self.has_table(table_name):
                self.clear_indexes(table_name)
            else:
                self.add_table(table_name)

            constraints = evolver.get_constraints_for_table(table_name)

            for constraint_name, constraint_info in six.iteritems(constraints):
                self.add_index(table_name=table_name,
                               index_name=constraint_name,
                               columns=constraint_info['columns'],
                               unique=constraint_info['unique'])

    def _get_indexes_dict(self, table_name, unique):
        """Return the indexes dictionary for the given criteria.

        Version Added:
            2.2

        Args:
            table_name (unicode):
                The name of the table the indexes are associated with.

            unique (bool):
                Whether to return the unique or normal indexes.

        Returns:
            dict:
            The indexes dictionary.
        """
        if unique:
            key = 'unique_indexes'
        else:
            key = 'indexes'

        return self._tables[table_name][key]
