# Psycopg2 behaviour is identical to Psycopg1
from django_evolution.db.postgresql import EvolutionOperations


__all__ = ['EvolutionOperations']
