"""Common evolution operations backend for databases."""

from __future__ import unicode_literals

import copy
import logging
from collections import defaultdict

import django
from django.db import connection as default_connection, models

from django_evolution import support
from django_evolution.compat import six
from django_evolution.compat.db import (collect_sql_schema_editor,
                                        create_index_name,
                                        create_index_together_name,
                                        sql_add_constraints,
                                        sql_create_for_many_to_many_field,
                                        sql_delete_constraints,
                                        sql_delete_index,
                                        sql_indexes_for_field,
                                        sql_indexes_for_fields,
                                        truncate_name)
from django_evolution.compat.models import (get_remote_field,
                                            get_remote_field_model,
                                            get_remote_field_related_model)
from django_evolution.db.sql_result import AlterTableSQLResult, SQLResult
from django_evolution.errors import EvolutionNotImplementedError
from django_evolution.support import supports_index_feature
from django_evolution.utils.models import iter_non_m2m_reverse_relations


class BaseEvolutionOperations(object):
    """Base class for evolution operations for a database backend."""

    #: The name of the database type.
    #:
    #: Version Added:
    #:     2.3
    name = None

    #: A set of attributes that can be changed in the database.
    supported_change_attrs = {
        'db_column',
        'db_index',
        'db_table',
        'decimal_places',
        'max_digits',
        'max_length',
        'null',
        'unique',
    }

    # Build the list of ChangeMeta attributes that databases support by
    # default.
    supported_change_meta = {
        'constraints': support.supports_constraints,
        'db_table_comment': support.supports_db_table_comments,
        'indexes': support.supports_indexes,
        'index_together': support.supports_index_together,
        'unique_together': True,
    }

    mergeable_ops = (
        'add_column',
        'change_column',
        'change_meta',
        'delete_column',
    )

    ignored_m2m_attrs = {
        models.ManyToManyField: set(['null']),
    }

    #: The default tablespace for the database, if tablespaces are supported.
    #:
    #: Version Added:
    #:     2.2
    #:
    #: Type:
    #:     unicode
    default_tablespace = None

    #: Whether a column type change operation also sets new attributes.
    #:
    #: If ``False``, attributes will be set through the standard field change
    #: operation.
    #:
    #: Version Added:
    #:     2.2
    #:
    #: Type:
    #:     bool
    change_column_type_sets_attrs = True

    alter_table_sql_result_cls = AlterTableSQLResult

    def __init__(self, database_state, connection=default_connection):
        """Initialize the evolution operations.

        Args:
            database_state (django_evolution.db.state.DatabaseState):
                The database state to track information through.

            connection (object):
                The database connection.
        """
        self.database_state = database_state
        self.connection = connection

    def can_add_index(self, index):
        """Return whether an index can be added to this database.

        This will determine if the database connection supports the state
        represented in the index well enough to be written to the database.

        Note that not all features of an index are required. At the moment,
        to comply with Django's logic
        (:py:meth:`BaseDatabaseSchemaEditor.add_index()
        <django.db.backends.base.schema.BaseDatabaseSchemaEditor.add_index>`),
        an index can be written so long as it either does not contain
        expressions or the database backend supports expression indexes.

        Args:
            index (django.db.models.Index):
                The index that would be written.

        Returns:
            bool:
            ``True`` if the index can be written. ``False`` if it cannot.
        """
        if (supports_index_feature('expressions') and
            index.contains_expressions and
            not self.connection.features.supports_expression_indexes):
            return False

        return True

    def get_field_type_allows_default(self, field):
        """Return whether default values are allowed for a field.

        By default, default values are always allowed. Subclasses should
        override this if some types do not allow for defaults.

        Version Added:
            2.2

        Args:
            field (django.db.models.Field):
                The field to check.

        Returns:
            bool:
            ``True`` if default values are allowed. ``False`` if they're not.
        """
        return True

    def get_deferrable_sql(self):
        """Return the SQL for marking a reference as deferrable.

        Version Added:
            2.2

        Returns:
            unicode:
            The SQL for marking a reference as deferrable.
        """
        return self.connection.ops.deferrable_sql()

    def get_change_column_type_sql(self, model, old_field, new_field):
        """Return SQL for changing a column type.

        This should be limited to the ``ALTER TABLE`` or equivalent for
        changing the column. It should not affect constraints or other
        fields.

        Subclasses must implement this, unless they override
        :py:meth:`change_column_type`.

        Version Added:
            2.2

        Args:
            model (type):
                The parent model of the column.

            old_field (django.db.models.Field):
                The old field being replaced.

            new_field (django.db.models.Field):
                The new replacement field.

        Returns:
            django_evolution.db.sql_result.SQLResult:
            The SQL statements for changing the column type.
        """
        raise NotImplementedError

    def build_column_schema(self, model, field, initial=None,
                            skip_null_constraint=False,
                            skip_primary_or_unique_constraint=False,
                            skip_references=False):
        """Return information on the schema for building a column.

        This is used when creating or re-creating columns on a table.

        Args:
            model (type):
                The parent model of the column.

            field (django.db.models.Field):
                The field to build the column schema from.

            initial (object or callable):
                The initial data for the column.

            skip_null_constraint (bool, optional):
                Whether to skip adding ``NULL``/``NOT NULL`` constraints.
                This can be used to temporarily omit this part of the
                schema while adding the column.

            skip_references (bool, optional):
                Whether to skip adding ``REFERENCES ...`` information.
                This can be used to temporarily omit this part of the
                schema while adding the column, handling that step separately.

        Returns:
            dict:
            The schema information. This has the following keys:

            ``db_type`` (:py:class:`unicode`):
                The database-specific column type.

            ``definition`` (list):
                A list of parts of the column schema definition. Each of
                these is a keyword (which may or may not have spaces) or
                values used for constructing the column.

            ``definition_sql_params`` (list):
                The list of SQL parameters to pass to the executor. These
                will be safely handled by the database backend.

            ``name`` (:py:class:`unicode`):
                The name of the column.
        """
        connection = self.connection
        qn = connection.ops.quote_name
        tablespace = field.db_tablespace or model._meta.db_tablespace

        column_def = []
        column_def_sql_params = []

        if not skip_null_constraint:
            if field.null:
                column_def.append('NULL')
            else:
                column_def.append('NOT NULL')

        if not skip_primary_or_unique_constraint:
            if field.primary_key:
                column_def.append('PRIMARY KEY')
            elif field.unique:
                column_def.append('UNIQUE')

        # Add tablespace information.
        if (tablespace and
            connection.features.supports_tablespaces and
            connection.features.autoindexes_primary_keys and
            (field.unique or field.primary_key)):
            # We must specify the index tablespace inline, because we
            # won't be generating a CREATE INDEX statement for this field.
            column_def.append(connection.ops.tablespace_sql(tablespace,
                                                            inline=True))

        remote_field = get_remote_field(field)

        if remote_field:
            # This is a ForeignKey, or similar. The exact syntax is up to the
            # database backend, but this will generally be in the form of:
            #
            # ... REFERENCES <table> (<reffed_columns>) ...
            #
            # Followed by backend-specific deferrable syntax.
            if not skip_references:
                related_model = get_remote_field_model(remote_field)

                column_def += [
                    'REFERENCES',
                    qn(related_model._meta.db_table),
                    '(%s)' % qn(related_model._meta.pk.column),
                    self.get_deferrable_sql(),
                ]
        else:
            # This is a standard field.
            #
            # At this point, initial can only be None if null=True, otherwise
            # it is a user callable or the default AddFieldInitialCallback
            # which will shortly raise an exception.
            if (initial is not None and
                not callable(initial) and
                self.get_field_type_allows_default(field)):
                column_def += ['DEFAULT', '%s']
                column_def_sql_params.append(initial)

        return {
            'name': field.column,
            'db_type': field.db_type(connection=connection),
            'definition': column_def,
            'definition_sql_params': column_def_sql_params,
        }

    def generate_table_ops_sql(self, mutator, ops):
        """Generates SQL for a sequence of mutation operations.

        This will process each operation one-by-one, generating default SQL,
        using generate_table_op_sql().
        """
        sql_results = []
        prev_sql_result = None
        prev_op = None

        for op in ops:
            sql_result = self.generate_table_op_sql(mutator, op,
                                                    prev_sql_result, prev_op)

            if sql_result is not prev_sql_result:
                sql_results.append(sql_result)
                prev_sql_result = sql_result

            prev_op = op

        sql = []

        for sql_result in sql_results:
            sql.extend(sql_result.to_sql())

        return sql

    def generate_table_op_sql(self, mutator, op, prev_sql_result, prev_op):
        """Generates SQL for a single mutation operation.

        This will call different SQL-generating functions provided by the
        class, depending on the details of the operation.

        If two adjacent operations can be merged together (meaning that
        they can be turned into one ALTER TABLE statement), they'll be placed
        in the same AlterTableSQLResult.
        """
        model = mutator.create_model()

        op_type = op['type']
        mutation = op['mutation']

        if prev_op and self._are_ops_mergeable(prev_op, op):
            sql_result = prev_sql_result
        else:
            sql_result = self.alter_table_sql_result_cls(self, model)

        if op_type == 'add_column':
            field = op['field']
            sql_result.add(self.add_column(model, field, op['initial']))
        elif op_type == 'change_column':
            sql_result.add(self.change_column_attrs(model, mutation,
                                                    op['field'].name,
                                                    op['new_attrs']))
        elif op_type == 'change_column_type':
            sql_result.add(self.change_column_type(
                model=model,
                old_field=op['old_field'],
                new_field=op['new_field'],
                new_attrs=op['new_attrs']))
        elif op_type == 'delete_column':
            sql_result.add(self.delete_column(model, op['field']))

            # The indexes covering the column are dropped along with it.
            self.database_state.remove_column_indexes(
                table_name=model._meta.db_table,
                column=op['field'].column)
        elif op_type == 'change_meta':
            evolve_func = getattr(self, 'change_meta_%s' % op['prop_name'])
            sql_result.add(evolve_func(model, op['old_value'],
                                       op['new_value']))
        elif op_type == 'sql':
            sql_result.add(op['sql'])
        else:
            raise EvolutionNotImplementedError(
                'Unknown mutation operation "%s"' % op_type)

        mutator.finish_op(op)

        return sql_result

    def quote_sql_param(self, param):
        "Add protective quoting around an SQL string parameter"
        if isinstance(param, six.string_types):
            return "'%s'" % six.text_type(param).replace("'", r"\'")
        else:
            return param

    def rename_column(self, model, old_field, new_field):
        """Renames the specified column.

        This must be implemented by subclasses. It must return an SQLResult
        or AlterTableSQLResult representing the SQL needed to rename the
        column.
        """
        raise NotImplementedError

    def get_rename_table_sql(self, model, old_db_table, new_db_table):
        """Return SQL for renaming a table.

        Args:
            model (django.db.models.Model):
                The model representing the table to rename.

            old_db_table (unicode):
                The old table name.

            new_db_table (unicode):
                The new table name.

        Returns:
            django_evolution.db.sql_result.SQLResult:
            The resulting SQL for renaming the table.
        """
        qn = self.connection.ops.quote_name

        # We want to define an explicit ALTER TABLE here, instead of setting
        # alter_table in AlterTableSQLResult, so that we can be explicit about
        # the old and new table names.
        return SQLResult(['ALTER TABLE %s RENAME TO %s;'
                          % (qn(old_db_table), qn(new_db_table))])

    def rename_table(self, model, old_db_table, new_db_table):
        """Rename a table.

        This will take care of removing and then restoring any primary field
        constraints. If an evolver backend doesn't support this, or has another
        method for managing these constraints, it should override this method.

        Args:
            model (django.db.models.Model):
                The model representing the table to rename.

            old_db_table (unicode):
                The old table name.

            new_db_table (unicode):
                The new table name.

        Returns:
            django_evolution.db.sql_result.SQLResult:
            The resulting SQL for renaming the table.
        """
        sql_result = SQLResult()

        if old_db_table != new_db_table:
            pre_sql, stash = self.stash_field_ref_constraints(
                model=model,
                renamed_db_tables={
                    old_db_table: new_db_table,
                })

            sql_result.add_pre_sql(pre_sql)
            sql_result.add(self.get_rename_table_sql(
                model=model,
                old_db_table=old_db_table,
                new_db_table=new_db_table))
            sql_result.add_post_sql(self.restore_field_ref_constraints(stash))

        return sql_result

    def delete_column(self, model, f):
        return self.alter_table_sql_result_cls(
            self,
            model,
            [
                {
                    'op': 'DROP COLUMN',
                    'column': f.column,
                    'params': ['CASCADE']
                },
            ],
        )

    def delete_table(self, table_name):
        qn = self.connection.ops.quote_name
        return SQLResult(['DROP TABLE %s;' % qn(table_name)])

    def add_m2m_table(self, model, field):
        """Return SQL statements for creating a ManyToManyField's table.

        Args:
            model (django.db.models.Model):
                The database model owning the field.

            field (django.db.models.ManyToManyField):
                The field owning the table.

        Returns:
            list:
            The list of SQL statements for creating the table.
        """
        return sql_create_for_many_to_many_field(self.connection, model, field)

    def add_column(self, model, field, initial):
        """Add a column to a table.

        Args:
            model (type):
                The model representing the table the column will be added to.

            field (django.db.models.Field):
                The field representing the column being added.

            initial (object or callable):
                The initial data to set for the column in all rows. If this
                is a callable, it will be called and the result will be used.

        Returns:
            django_evolution.db.sql_result.AlterTableSQLResult:
            The SQL for adding the column.
        """
        qn = self.connection.ops.quote_name
        sql_result = self.alter_table_sql_result_cls(self, model)
        table_name = model._meta.db_table
        remote_field = get_remote_field(field)
        can_set_initial = (remote_field is None and
                           initial is not None and
                           self.get_field_type_allows_default(field))

        schema = self.build_column_schema(
            model=model,
            field=field,
            initial=initial,
            skip_null_constraint=can_set_initial and callable(initial))
        column_name = schema['name']

        sql_result.add_alter_table([{
            'op': 'ADD COLUMN',
            'column': column_name,
            'db_type': schema['db_type'],
            'params': schema['definition'],
            'sql_params': schema['definition_sql_params'],
        }])

        if can_set_initial:
            if callable(initial):
                initial, embed_initial = self.normalize_initial(initial)

                set_sql = (
                    'UPDATE %(table_name)s SET %(column_name)s = %%s'
                    ' WHERE %(column_name)s IS NULL;'
                    % {
                        'column_name': qn(column_name),
                        'table_name': qn(table_name),
                    }
                )

                if embed_initial:
                    set_sql = set_sql % initial
                else:
                    set_sql = (set_sql, (initial,))

                sql_result.add_sql([set_sql])

                if not field.null:
                    # Now that we've set initial values, we can make this
                    # `NOT NULL`.
                    sql_result.add_sql(self.set_field_null(
                        model=model,
                        field=field,
                        null=False))
            else:
                # Django doesn't generate default columns, so now that
                # we've added one to get default values for existing
                # tables, drop that default.
                sql_result.add_post_sql([
                    'ALTER TABLE %s ALTER COLUMN %s DROP DEFAULT;'
                    % (qn(table_name), qn(column_name))
                ])

        if field.unique or field.primary_key:
            self.database_state.add_index(
                table_name=table_name,
                index_name=self.get_new_constraint_name(table_name,
                                                        column_name),
                columns=[column_name],
                unique=True)

        sql_result.add(self.create_index(model, field))

        return sql_result

    def set_field_null(self, model, field, null):
        if null:
            attr = 'DROP NOT NULL'
        else:
            attr = 'SET NOT NULL'

        return self.alter_table_sql_result_cls(
            self,
            model,
            [
                {
                    'op': 'ALTER COLUMN',
                    'column': field.column,
                    'params': [attr],
                },
            ]
        )

    def create_index(self, model, field):
        """Returns the SQL for creating an index for a single field.

        The index will be recorded in the database signature for future
        operations within the transaction, and the appropriate SQL for
        creating the index will be returned.

        This is not intended to be overridden.
        """
        table_name = model._meta.db_table
        column = field.column
        index_state = self.database_state.find_index(
            table_name=table_name,
            columns=[column])

        if index_state:
            return []

        self.database_state.add_index(
            table_name=table_name,
            index_name=create_index_name(self.connection,
                                         table_name,
                                         field_names=[field.name],
                                         col_names=[column]),
            columns=[column])

        return SQLResult(sql_indexes_for_field(self.connection, model, field))

    def create_unique_index(self, model, index_name, fields):
        qn = self.connection.ops.quote_name
        table_name = model._meta.db_table

        self.database_state.add_index(
            table_name=table_name,
            index_name=index_name,
            columns=self.get_column_names_for_fields(fields),
            unique=True)

        return SQLResult([
            'CREATE UNIQUE INDEX %s ON %s (%s);'
            % (qn(index_name), qn(table_name),
               ', '.join([qn(field.column) for field in fields])),
        ])

    def drop_index(self, model, field):
        """Returns the SQL for dropping an index for a single field.

        The index matching the field's column will be looked up and,
        if found, the SQL for dropping it will be returned.

        If the index was not found on the database or in the database
        signature, this won't return any SQL statements.

        This is not intended to be overridden. Instead, subclasses should
        override `get_drop_index_sql`.
        """
        index_state = self.database_state.find_index(
            table_name=model._meta.db_table,
            columns=[field.column])

        if index_state:
            return self.drop_index_by_name(model, index_state.name)

        return []

    def drop_index_by_name(self, model, index_name):
        """Returns the SQL to drop an index, given an index name.

        The index will be removed fom the database signature, and
        the appropriate SQL for dropping the index will be returned.

        This is not intended to be overridden. Instead, subclasses should
        override `get_drop_index_sql`.
        """
        self.database_state.remove_index(table_name=model._meta.db_table,
                                         index_name=index_name)

        return self.get_drop_index_sql(model, index_name)

    def get_drop_index_sql(self, model, index_name):
        """Returns the database-specific SQL to drop an index.

        This can be overridden by subclasses if they use a syntax
        other than "DROP INDEX <name>;"
        """
        return SQLResult(sql_delete_index(connection=self.connection,
                                          model=model,
                                          index_name=index_name))

    def get_new_index_name(self, model, fields, unique=False):
        """Return a newly generated index name.

        This returns a unique index name for any indexes created by
        django-evolution, based on how Django would compute the index.

        Args:
            model (django.db.models.Model):
                The database model for the index.

            fields (list of django.db.models.Field):
                The list of fields for the index.

            unique (bool, optional):
                Whether this index is unique.

        Returns:
            str:
            The generated name for the index.
        """
        return create_index_name(
            self.connection,
            table_name=model._meta.db_table,
            field_names=[f.name for f in fields],
            col_names=[f.column for f in fields],
            unique=unique)

    def get_new_constraint_name(self, table_name, column):
        """Return a newly-generated constraint name.

        Args:
            table_name (unicode):
                The name of the table.

            column (unicode):
                The name of the column.

        Returns:
            unicode:
            The new constraint name.
        """
        return truncate_name('%s_%s_key' % (table_name, column),
                             self.connection.ops.max_name_length())

    def get_default_index_name(self, table_name, field):
        """Return a default index name for the database.

        This will return an index name for the given field that matches what
        the database or Django database backend would automatically generate
        when marking a field as indexed or unique.

        This can be overridden by subclasses if the database or Django
        database backend provides different values.

        Args:
            table_name (str):
                The name of the table for the index.

            field (django.db.models.Field):
                The field for the index.

        Returns:
            str:
            The name of the index.
        """
        assert field.unique or field.db_index

        if field.unique:
            return truncate_name(field.column,
                                 self.connection.ops.max_name_length())
        elif field.db_index:
            return create_index_name(self.connection, table_name,
                                     field_names=[field.name],
                                     col_names=[field.column])
        else:
            # This won't be reached, due to the assert above.
            raise NotImplementedError

    def get_default_index_together_name(self, table_name, fields):
        """Returns a default index name for an index_together.

        This will return an index name for the given field that matches what
        Django uses for index_together fields.

        Args:
            table_name (str):
                The name of the table for the index.

            fields (list of django.db.models.Field):
                The fields for the index.

        Returns:
            str:
            The name of the index.
        """
        return create_index_together_name(
            self.connection,
            table_name,
            [field.name for field in fields])

    def change_column_attrs(self, model, mutation, field_name, new_attrs):
        """Return the SQL for changing one or more column attributes.

        This will generate all the statements needed for changing a set
        of attributes for a column.

        The resulting AlterTableSQLResult contains all the SQL needed
        to apply these attributes.

        Args:
            model (type):
                The model class that owns the field.

            mutation (django_evolution.mutations.BaseModelMutation):
                The mutation applying this change.

            field_name (unicode):
                The name of the field on the model.

            new_attrs (dict):
                A dictionary mapping attributes to new values.

        Returns:
            django_evolution.db.sql_result.AlterTableSQLResult:
            The SQL for modifying the column.
        """
        field = model._meta.get_field(field_name)
        ignored_m2m_attrs = self.ignored_m2m_attrs.get(type(field), set())
        attrs_sql_result = self.alter_table_sql_result_cls(self, model)
        change_calls = []

        if (isinstance(field, models.DecimalField) and
            ('max_digits' in new_attrs or 'decimal_places' in new_attrs)):
            # DecimalFields generally map to something like a
            # NUMERIC(max_digits, decimal_places) or a DECIMAL(...) version,
            # and as such we need to incorporate both values.
            try:
                new_max_digits = new_attrs.pop('max_digits')['new_value']
            except KeyError:
                new_max_digits = None

            try:
                new_decimal_places = \
                    new_attrs.pop('decimal_places')['new_value']
            except KeyError:
                new_decimal_places = None

            change_calls.append({
                'func': self.change_column_attr_decimal_type,
                'kwargs': {
                    'new_max_digits': new_max_digits,
                    'new_decimal_places': new_decimal_places,
                },
            })

        # If db_index and/or unique has changed, process them together so
        # that index SQL generation can account for both changing states.
        if 'db_index' in new_attrs or 'unique' in new_attrs:
            db_index_attr = new_attrs.pop('db_index', {})
            old_db_index = db_index_attr.get('old_value', field.db_index)
            new_db_index = db_index_attr.get('new_value', field.db_index)

            unique_attr = new_attrs.pop('unique', {})
            old_unique = unique_attr.get('old_value', field.unique)
            new_unique = unique_attr.get('new_value', field.unique)

            if old_db_index != new_db_index or old_unique != new_unique:
                change_calls.append({
                    'func': self.change_column_attrs_db_index_unique,
                    'kwargs': {
                        'old_db_index': old_db_index,
                        'new_db_index': new_db_index,
                        'old_unique': old_unique,
                        'new_unique': new_unique,
                    },
                })

        # Process any remaining supported attributes.
        change_calls += [
            {
                'func': getattr(self, 'change_column_attr_%s' % attr_name),
                'kwargs': {
                    'old_value': attr_info['old_value'],
                    'new_value': attr_info['new_value'],
                },
            }
            for attr_name, attr_info in sorted(six.iteritems(new_attrs),
                                               key=lambda pair: pair[0])
            if attr_name not in ignored_m2m_attrs
        ]

        for change_call in change_calls:
            func = change_call['func']

            try:
                sql_result = func(model=model,
                                  mutation=mutation,
                                  field=field,
                                  **change_call['kwargs'])
                assert not sql_result or isinstance(sql_result, SQLResult)
            except Exception as e:
                logging.critical(
                    'Error running database evolver function %s: %s',
                    func.__name__, e,
                    exc_info=1)
                raise

            attrs_sql_result.add(sql_result)

        return attrs_sql_result

    def change_column_attr_null(self, model, mutation, field, old_value,
                                new_value):
        """Returns the SQL for changing a column's NULL/NOT NULL attribute."""
        qn = self.connection.ops.quote_name
        initial = mutation.initial
        opts = model._meta
        pre_sql = []

        if not new_value and initial is not None:
            sql_prefix = (
                'UPDATE %(table_name)s SET %(column_name)s = %%s'
                ' WHERE %(column_name)s IS NULL;'
                % {
                    'table_name': qn(opts.db_table),
                    'column_name': qn(field.column),
                }
            )

            initial, embed_initial = self.normalize_initial(initial)

            if embed_initial:
                update_sql = sql_prefix % initial
            else:
                update_sql = (sql_prefix, (initial,))

            pre_sql.append(update_sql)

        sql_result = self.set_field_null(model, field, new_value)
        sql_result.add_pre_sql(pre_sql)

        return sql_result

    def change_column_attr_decimal_type(self, model, mutation, field,
                                        new_max_digits, new_decimal_places):
        """Return SQL for changing a column's max digits and decimal places.

        This is used for :py:class:`~django.db.models.DecimalField` and
        subclasses to change the maximum number of digits or decimal places.
        As these are used together as a column type, they must be considered
        together as one attribute change.

        Args:
            model (type):
                The model class that owns the field.

            mutation (django_evolution.mutations.BaseModelMutation):
                The mutation applying this change.

            field (django.db.models.DecimalField):
                The field being modified.

            new_max_digits (int):
                The new value for ``max_digits``. If ``None``, it wasn't
                provided in the attribute change.

            new_decimal_places (int):
                The new value for ``decimal_places``. If ``None``, it wasn't
                provided in the attribute change.

        Returns:
            django_evolution.db.sql_result.AlterTableSQLResult:
            The SQL for modifying the value.
        """
        if new_max_digits is not None:
            field.max_digits = new_max_digits

        if new_decimal_places is not None:
            field.decimal_places = new_decimal_places

        return self.alter_table_sql_result_cls(
            self,
            model,
            alter_table=[{
                'op': 'MODIFY COLUMN',
                'column': field.column,
                'db_type': field.db_type(connection=self.connection)
            }]
        )

    def change_column_attr_max_length(self, model, mutation, field, old_value,
                                      new_value):
        """Returns the SQL for changing a column's max length."""
        field.max_length = new_value

        qn = self.connection.ops.quote_name
        column = field.column
        db_type = field.db_type(connection=self.connection)

        return self.alter_table_sql_result_cls(
            self,
            model,
            [
                {
                    'op': 'ALTER COLUMN',
                    'column': column,
                    'params': [
                        'TYPE %s USING CAST(%s as %s)'
                        % (db_type, qn(column), db_type),
                    ],
                },
            ]
        )

    def change_column_attr_db_column(self, model, mutation, field, old_value,
                                     new_value):
        """Returns the SQL for changing a column's name."""
        new_field = copy.copy(field)
        new_field.column = new_value

        return self.rename_column(model, field, new_field)

    def change_column_attr_db_table(self, model, mutation, field, old_value,
                                    new_value):
        """Returns the SQL for changing the table for a ManyToManyField."""
        return self.rename_table(model, old_value, new_value)

    def change_column_attrs_db_index_unique(self, model, mutation, field,
                                            old_db_index, new_db_index,
                                            old_unique, new_unique):
        """Return SQL for changing indexes due to db_index or unique.

        This determines whether standard or unique indexes need to be dropped
        or added, and returns the resulting SQL.

        Unique indexes are dropped if a field went from ``unique=True`` to
        ``unique=False``.

        If not dropping a unique index, but the field was set to
        ``db_index=True, unique=False``, and either ``db_index=False`` or
        ``unique=True`` is being set, a stnadard index will be dropped.

        Unique indexes are added if a field went from ``unique=False`` to
        ``unique=True``.

        If not adding a unique index, but the field was set to
        ``db_index=False`` or ``unique=True`` and is being set to
        ``db_index=True, unique=False``, then a standard index will be added.

        Version Added:
            2.3

        Args:
            model (django.db.models.Model):
                The model being changed.

            mutation (django_evolution.mutations.BaseModelMutation):
                The mutation applying this change.

            field (django.db.models.DecimalField):
                The field being modified.

            old_db_index (bool):
                The old ``db_index`` value.

            new_db_index (bool):
                The new ``db_index`` value.

            old_unique (bool):
                The old ``unique`` value.

            new_unique (bool):
                The new ``unique`` value.

        Returns:
            django_evolution.db.sql_result.AlterTableSQLResult:
            The SQL for dropping and/or adding indexes.
        """
        result = self.alter_table_sql_result_cls(
            evolver=self,
            model=model)

        # Check if any indexes need to be dropped.
        if old_unique and not new_unique:
            # Remove the unique index.
            result.add(self.change_column_attr_unique(
                model=model,
                mutation=mutation,
                field=field,
                old_value=old_unique,
                new_value=new_unique))
        elif (old_db_index and not old_unique and
              (not new_db_index or new_unique)):
            # Remove the standard index.
            result.add(self.change_column_attr_db_index(
                model=model,
                mutation=mutation,
                field=field,
                old_value=old_db_index,
                new_value=new_db_index))

        # Check if any indexes need to be added.
        if not old_unique and new_unique:
            # Add the unique index.
            result.add(self.change_column_attr_unique(
                model=model,
                mutation=mutation,
                field=field,
                old_value=old_unique,
                new_value=new_unique))
        elif ((not old_db_index or old_unique) and
              new_db_index and not new_unique):
            # Add the standard index.
            result.add(self.change_column_attr_db_index(
                model=model,
                mutation=mutation,
                field=field,
                old_value=old_db_index,
                new_value=new_db_index))

        return result

    def change_column_attr_db_index(self, model, mutation, field, old_value,
                                    new_value):
        """Return the SQL for creating/dropping indexes for a column.

        If setting ``db_index=True``, SQL for generating the index will be
        returned.

        If setting ``db_index=False``, SQL for dropping the index will be
        returned.

        Creating or dropping the SQL will also modify the cached/queued
        database index state, used by other operations that work with indexes.

        Subclasses should override this if they're sensitive to the order in
        which SQL is generated or cached/queued database index state is
        modified.

        Args:
            model (django.db.models.Model):
                The model being changed.

            mutation (django_evolution.mutations.BaseModelMutation):
                The mutation applying this change.

            field (django.db.models.DecimalField):
                The field being modified.

            old_value (bool):
                The old value for ``db_index``.

            new_value (bool):
                The new value for ``db_index``.

        Returns:
            django_evolution.db.sql_result.SQLResult:
            The resulting SQL for creating the index or scheduling a drop.
        """
        field.db_index = new_value

        if new_value:
            return self.create_index(model, field)
        else:
            return self.drop_index(model, field)

    def change_column_attr_unique(self, model, mutation, field, old_value,
                                  new_value):
        """Returns the SQL to change a field's unique flag.

        Changing the unique flag for a given column will affect indexes.
        If setting unique to True, an index will be created in the
        database signature for future operations within the transaction.
        If False, the index will be dropped from the database signature.

        The SQL needed to change the column will be returned.

        This is not intended to be overridden. Instead, subclasses should
        override `get_change_unique_sql`.
        """
        table_name = model._meta.db_table
        constraint_name = None

        if new_value:
            constraint_name = self.get_new_index_name(model, [field],
                                                      unique=True)
            self.database_state.add_index(
                table_name=table_name,
                index_name=constraint_name,
                columns=[field.column],
                unique=True)
        else:
            index_state = self.database_state.find_index(
                table_name=table_name,
                columns=[field.column],
                unique=True)

            assert index_state
            constraint_name = index_state.name
            self.database_state.remove_index(table_name=table_name,
                                             index_name=constraint_name,
                                             unique=True)

        return self.get_change_unique_sql(model, field, new_value,
                                          constraint_name, mutation.initial)

    def change_column_type(self, model, old_field, new_field, new_attrs):
        """Return SQL to change the type of a column.

        Version Added:
            2.2

        Args:
            model (type):
                The type of model owning the field.

            old_field (django.db.models.Field):
                The old field.

            new_field (django.db.models.Field):
                The new field.

            new_attrs (dict):
                New attributes set in the
                :py:class:`~django_evolution.mutations.change_field.
                ChangeField`.

        Returns:
            django_evolution.sql_result.AlterTableSQLResult:
            The SQL statements for changing the column type.
        """
        sql_result = AlterTableSQLResult(self, model)

        pre_sql, stash = self.stash_field_ref_constraints(
            model=model,
            replaced_fields={
                old_field: new_field,
            })

        sql_result.add_pre_sql(pre_sql)

        sql_result.add_sql(self.get_change_column_type_sql(
            model=model,
            old_field=old_field,
            new_field=new_field))

        sql_result.add_post_sql(self.restore_field_ref_constraints(stash))

        return sql_result

    def get_change_unique_sql(self, model, field, new_unique_value,
                              constraint_name, initial):
        """Returns the database-specific SQL to change a column's unique flag.

        This can be overridden by subclasses if they use a different syntax.
        """
        qn = self.connection.ops.quote_name

        if new_unique_value:
            alter_table_item = {
                'sql': 'ADD CONSTRAINT %s UNIQUE(%s)'
                       % (qn(constraint_name), qn(field.column))
            }
        else:
            alter_table_item = {
                'sql': 'DROP CONSTRAINT %s' % qn(constraint_name)
            }

        return self.alter_table_sql_result_cls(self, model, [alter_table_item])

    def get_drop_unique_constraint_sql(self, model, index_name):
        return self.get_drop_index_sql(model, index_name)

    def change_meta_unique_together(self, model, old_unique_together,
                                    new_unique_together):
        """Change the unique_together constraints of a table.

        Args:
            model (django.db.models.Model):
                The model being changed.

            old_unique_together (list):
                The old value for ``unique_together``.

            new_unique_together (list):
                The new value for ``unique_together``.

        Returns:
            django_evolution.sql_result.SQLResult:
            The SQL statements for changing the ``unique_together``
            constraints.
        """
        sql_result = SQLResult()
        table_name = model._meta.db_table

        old_unique_together = set(old_unique_together)
        new_unique_together = set(new_unique_together)

        to_remove = old_unique_together.difference(new_unique_together)

        for field_names in sorted(to_remove):
            fields = self.get_fields_for_names(model, field_names)
            index_state = self.database_state.find_index(
                table_name=table_name,
                columns=self.get_column_names_for_fields(fields),
                unique=True)

            if index_state:
                index_name = index_state.name

                self.database_state.remove_index(table_name=table_name,
                                                 index_name=index_name,
                                                 unique=True)
                sql_result.add_sql(
                    self.get_drop_unique_constraint_sql(model, index_name))

        for field_names in sorted(new_unique_together):
            fields = self.get_fields_for_names(model, field_names)
            index_state = self.database_state.find_index(
                table_name=table_name,
                columns=self.get_column_names_for_fields(fields),
                unique=True)

            if not index_state:
                # This doesn't exist in the database, so we want to add it.
                index_name = self.get_new_index_name(model, fields,
                                                     unique=True)
                sql_result.add_sql(
                    self.create_unique_index(model, index_name, fields))

        return sql_result

    def change_meta_index_together(self, model, old_index_together,
                                   new_index_together):
        """Change the index_together indexes of a table.

        Args:
            model (django.db.models.Model):
                The model being changed.

            old_index_together (list):
                The old value for ``index_together``.

            new_index_together (list):
                The new value for ``index_together``.

        Returns:
            django_evolution.sql_result.SQLResult:
            The SQL statements for changing the ``index_together`` indexes.
        """
        sql_result = SQLResult()
        table_name = model._meta.db_table

        old_index_together = set(old_index_together or [])
        new_index_together = set(new_index_together)

        to_remove = old_index_together.difference(new_index_together)

        for field_names in sorted(to_remove):
            fields = self.get_fields_for_names(model, field_names)
            index_state = self.database_state.find_index(
                table_name=table_name,
                columns=self.get_column_names_for_fields(fields))

            if index_state:
                sql_result.add(self.drop_index_by_name(model,
                                                       index_state.name))

        for field_names in sorted(new_index_together):
            fields = self.get_fields_for_names(model, field_names)
            columns = self.get_column_names_for_fields(fields)
            index_state = self.database_state.find_index(table_name=table_name,
                                                         columns=columns)

            if not index_state:
                # This doesn't exist in the database, so we want to add it.
                index_name = self.get_default_index_together_name(table_name,
                                                                  fields)
                self.database_state.add_index(table_name=table_name,
                                              index_name=index_name,
                                              columns=columns)
                sql_result.add(sql_indexes_for_fields(
                    self.connection, model, fields, index_together=True))

        return sql_result

    def change_meta_db_table_comment(self, model, old_comment, new_comment):
        """Change the comment for a table.

        Table comments are supported for some database backends in Django 4.2
        and higher. This generates the SQL for setting a comment for a given
        table.

        Version Added:
            2.3

        Args:
            model (django.db.models.Model):
                The model being changed.

            old_comment (unicode):
                The old comment.

            new_comment (unicode):
                The new comment.

        Returns:
            django_evolution.sql_result.SQLResult:
            The SQL statements for changing ``Meta.db_table_comment``.
        """
        sql_result = SQLResult()

        with collect_sql_schema_editor(self.connection) as schema_editor:
            schema_editor.alter_db_table_comment(
                model=model,
                old_db_table_comment=old_comment,
                new_db_table_comment=new_comment)

            sql_result.add(schema_editor.collected_sql)

        return sql_result

    def change_meta_constraints(self, model, old_constraints, new_constraints):
        """Change the constraints of a table.

        Constraints are a feature available in Django 2.2+ that allow for
        defining custom constraints on a table on
        :py:attr:`Meta.constraints <django.db.models.Options.constraints>`.

        This will calculate the old and new list of constraint instances,
        and the list of added/removed constraints, and call out to
        :py:meth:`get_update_table_constraints_sql` to generate the SQL for
        changing them.

        Args:
            model (django.db.models.Model):
                The model being changed.

            old_constraints (list of dict):
                A serialized representation of the old value for
                ``Meta.constraints``.

                This will contain ``name`` and ``type`` keys, as well as all
                attributes on the constraint.

            new_constraints (list of dict):
                A serialized representation of the new value for
                ``Meta.constraints``.

                This is in the same format as ``old_constraints``.

        Returns:
            django_evolution.sql_result.SQLResult:
            The SQL statements for changing ``Meta.constraints``.
        """
        # The mutation should have failed before getting here on older
        # versions of Django.
        assert django.VERSION >= (2, 2)

        CheckConstraint = models.CheckConstraint
        connection = self.connection
        supports_table_check_constraints = \
            connection.features.supports_table_check_constraints

        def _make_constraint(constraint_data):
            constraint_attrs = constraint_data.copy()
            constraint_type = constraint_attrs.pop('type')
            name = constraint_attrs.pop('name')

            return constraint_type(name=name, **constraint_attrs)

        def _is_constraint_supported(constraint_data):
            # Note that CheckConstraint won't be supported on MySQL unless
            # running Django 3.0+ and either MySQL 8.0.16+ or MariaDB 10.2.1+.
            if (issubclass(constraint_data['type'], CheckConstraint) and
                not supports_table_check_constraints):
                return False

            return True

        if not old_constraints:
            old_constraints = []

        old_constraints = [
            _make_constraint(_constraint_data)
            for _constraint_data in old_constraints
            if _is_constraint_supported(_constraint_data)
        ]

        new_constraints = [
            _make_constraint(_constraint_data)
            for _constraint_data in new_constraints
            if _is_constraint_supported(_constraint_data)
        ]

        old_constraints_map = {
            _constraint.name: _constraint
            for _constraint in old_constraints
        }

        new_constraints_map = {
            _constraint.name: _constraint
            for _constraint in new_constraints
        }

        to_add = [
            _constraint
            for _constraint in new_constraints
            if _constraint != old_constraints_map.get(_constraint.name)
        ]

        to_remove = [
            _constraint
            for _constraint in old_constraints
            if _constraint != new_constraints_map.get(_constraint.name)
        ]

        if not to_remove and not to_add:
            # There's nothing to do.
            return None

        return self.get_update_table_constraints_sql(
            model=model,
            old_constraints=old_constraints,
            new_constraints=new_constraints,
            to_add=to_add,
            to_remove=to_remove)

    def get_update_table_constraints_sql(self, model, old_constraints,
                                         new_constraints, to_add, to_remove):
        """Return SQL for updating the constraints on a table.

        The generated SQL will remove any old constraints and add any new
        constraints.

        By default, this uses the schema editor for the connection. Subclasses
        can modify this if they need custom logic.

        Args:
            model (django.db.models.Model):
                The model being changed.

            old_constraints (list of
                             django.db.models.constraints.BaseConstraint):
                The old constraints pre-evolution.

            new_constraints (list of
                             django.db.models.constraints.BaseConstraint):
                The new constraints post-evolution.

            to_add (list of django.db.models.constraints.BaseConstraint):
                A list of new constraints to add to the database that weren't
                set before.

            to_remove (list of django.db.models.constraints.BaseConstraint):
                A list of old constraints to remove from the database that
                aren't set now.

        Returns:
            django_evolution.sql_result.SQLResult:
            The SQL statements for changing the constraints.
        """
        sql_result = SQLResult()

        with self.connection.schema_editor(collect_sql=True) as schema_editor:
            for constraint in to_remove:
                sql_result.add(constraint.remove_sql(model, schema_editor))

            for constraint in to_add:
                sql_result.add(constraint.create_sql(model, schema_editor))

        return sql_result

    def change_meta_indexes(self, model, old_indexes, new_indexes):
        """Change the indexes of a table defined in a model's indexes list.

        This will apply a set of indexes serialized from a
        :py:attr:`Meta.indexes <django.db.models.options.Options.indexes>`
        to the database. The serialized values are those passed to
        :py:class:`~django_evolution.mutations.ChangeMeta`, in the form of::

            [
                {
                    'condition': {<deconstructured>},
                    'db_tablespace': '...',
                    'expressions': [{<deconstructured>}, ...],
                    'fields': ['field1', '-field2_sorted_desc'],
                    'include': ['...', ...],
                    'name': 'optional-index-name',
                    'opclasses': ['...', ...],
                },
                ...
            ]

        Args:
            model (django.db.models.Model):
                The model being changed.

            old_indexes (list):
                The old serialized value for the indexes.

            new_indexes (list):
                The new serialized value for the indexes.

        Returns:
            django_evolution.sql_result.SQLResult:
            The SQL statements for changing the indexes.
        """
        # The mutation should have failed before getting here on older
        # versions of Django.
        assert django.VERSION >= (1, 11)

        if not old_indexes:
            old_indexes = []

        # The same index may be described with its keys in a different order
        # (depending on whether the value came from the signature, from a
        # hinted evolution, or from an evolution file), so normalize the
        # order before comparing.
        old_indexes_map = {
            repr(sorted(six.iteritems(index_info))): index_info
            for index_info in old_indexes
        }

        new_indexes_map = {
            repr(sorted(six.iteritems(index_info))): index_info
            for index_info in new_indexes
        }

        to_remove = [
            index_info
            for index_key, index_info in six.iteritems(old_indexes_map)
            if index_key not in new_indexes_map
        ]

        to_add = [
            index_info
            for index_key, index_info in six.iteritems(new_indexes_map)
            if index_key not in old_indexes_map
        ]

        sql_result = SQLResult()
        table_name = model._meta.db_table
        db_state = self.database_state

        with self.connection.schema_editor(collect_sql=True) as schema_editor:
            for index_info in to_remove:
                index_field_names = index_info.get('fields', ())
                index_name = index_info.get('name')

                if index_name:
                    index_state = db_state.get_index(table_name=table_name,
                                                     index_name=index_name)
                elif index_field_names:
                    # No explicit index name was given, so see if we can find
                    # one that matches in the database.
                    fields = self.get_fields_for_names(
                        model,
                        index_field_names,
                        allow_sort_prefixes=True)
                    index_state = db_state.find_index(
                        table_name=table_name,
                        columns=self.get_column_names_for_fields(fields))
                else:
                    index_state = None

                if index_state:
                    # We found a suitable index name, and a matching index
                    # entry in the database. Remove it.
                    index_name = index_state.name

                    index = self._create_index_from_mutation_info(
                        dict(index_info, **{
                            'name': index_name,
                            'fields': list(index_field_names),
                        }))
                    sql_result.add('%s;' % index.remove_sql(model,
                                                            schema_editor))

                    db_state.remove_index(table_name=table_name,
                                          index_name=index_name)

            for index_info in to_add:
                index_attrs = index_info.copy()
                index_field_names = index_attrs.pop('fields', None)
                index_name = index_attrs.pop('name', None)

                if index_field_names:
                    fields = self.get_fields_for_names(
                        model,
                        index_field_names,
                        allow_sort_prefixes=True)
                else:
                    fields = None

                if index_name:
                    index_state = db_state.get_index(
                        table_name=table_name,
                        index_name=index_name)
                elif fields:
                    # No explicit index name was given, so see if we can find
                    # one that matches in the database.
                    index_state = db_state.find_index(
                        table_name=table_name,
                        columns=self.get_column_names_for_fields(fields))

                    if index_state:
                        index_name = index_state.name

                if not index_name or not index_state:
                    # This is a new index not found in the database, or a
                    # replacement for one that's being removed. We can record
                    # it and proceed.
                    index = self._create_index_from_mutation_info(index_info)

                    if self.can_add_index(index):
                        if not index_name:
                            index.set_name_with_model(model)

                        db_state.add_index(
                            table_name=table_name,
                            index_name=index.name,
                            columns=self.get_column_names_for_fields(
                                fields or []))

                        sql_result.add(
                            '%s;' % index.create_sql(model, schema_editor))

        return sql_result

    def get_fields_for_names(self, model, field_names,
                             allow_sort_prefixes=False):
        """Return the field instances for the given field names.

        This will go through each of the provided field names, optionally
        handling a sorting prefix (``-``, used by Django 1.11+'s
        :py:class:`~django.db.models.Index` field lists), and return the
        field instance for each.

        Args:
            model (django.db.models.Model):
                The model to fetch fields from.

            field_names (list of unicode):
                The list of field names to fetch.

            allow_sort_prefixes (bool, optional):
                Whether to allow sorting prefixes in the field names.

        Returns:
            list of django.db.models.Field:
            The resulting list of fields.
        """
        meta = model._meta
        fields = []

        for field_name in field_names:
            if allow_sort_prefixes and field_name.startswith('-'):
                field_name = field_name[1:]

            fields.append(meta.get_field(field_name))

        return fields

    def get_column_names_for_fields(self, fields):
        return [field.column for field in fields]

    def get_constraints_for_table(self, table_name):
        """Return all known constraints/indexes on a table.

        This will scan the table for any constraints or indexes. It generally
        will wrap Django's database introspection support if available (on
        Django >= 1.7), falling back on in-house implementations on earlier
        releases.

        Version Added:
            2.2

        Args:
            table_name (unicode):
                The name of the table.

        Returns:
            dict:
            A dictionary mapping index names to a dictionary containing:

            ``columns`` (:py:class:`list`):
                The list of columns that the index covers.

            ``unique`` (:py:class:`bool`):
                Whether this is a unique index.
        """
        introspection = self.connection.introspection
        results = {}

        if hasattr(introspection, 'get_constraints'):
            # Django >= 1.7
            cursor = self.connection.cursor()

            try:
                constraints = introspection.get_constraints(cursor,
                                                            table_name)
            finally:
                cursor.close()

            for index_name, info in six.iteritems(constraints):
                if not (info.get('index') or info.get('unique')):
                    # This is a primary key, foreign key or check
                    # constraint. It's not an index, and must not be
                    # found (or dropped) as one.
                    continue

                results[index_name] = {
                    'unique': info.get('unique', False),
                    'columns': info.get('columns', []),
                }
        else:
            # Django == 1.6
            indexes = self.get_indexes_for_table(table_name)

            for index_name, info in six.iteritems(indexes):
                results[index_name] = {
                    'columns': info['columns'],
                    'unique': info['unique'],
                }

        return results

    def get_indexes_for_table(self, table_name):
        """Return all known indexes on a table.

        This is a fallback used only on Django 1.6, due to lack of proper
        introspection on that release. It should only be called internally
        by :py:meth:`get_constraints_for_table`.

        Args:
            table_name (unicode):
                The name of the table.

        Returns:
            dict:
            A dictionary mapping index names to a dictionary containing:

            ``columns`` (:py:class:`list`):
                The list of columns that the index covers.

            ``unique`` (:py:class:`bool`):
                Whether this is a unique index.
        """
        raise NotImplementedError

    def stash_field_ref_constraints(self, model,
                                    replaced_fields={},
                                    renamed_db_tables={}):
        """Return SQL for removing constraints on a primary key field.

        This should be called before performing an operation that renames a
        field or changes the table on a ManyToManyField on databases that
        support adding/dropping constraints on primary keys. The constraints
        can then be restored through :py:meth:`restore_field_ref_constraints`.

        As of Django Evolution 2.0, this only considers fields on
        ManyToManyFields defined by ``model``, keeping behavior consistent with
        prior versions of Django Evolution.

        Args:
            model (django.db.models.Model):
                The model owning the fields to remove constraints from.

            replaced_fields (dict):
                A dictionary mapping old fields to new fields. Each field is
                expected to be a primary key. These will be checked for field
                name and column changes.

            renamed_db_tables (dict):
                A dictionary mapping old table names to new table names.
                This is used when renaming many-to-many intermediary tables.

        Returns:
            tuple:
            A tuple containing the following items:

            1. The :py:class:`~django_evolution.sql_result.SQLResult` that
               contains the SQL to remove the current constraints.
            2. A dictionary containing internal stashed state for restoring
               constraints. This should be considered opaque.
        """
        assert replaced_fields or renamed_db_tables

        connection = self.connection
        db_state = self.database_state

        renamed_columns = {}
        renamed_col_fields = {}
        renamed_fields = {}
        replaced_fields_by_name = {}
        replaced_field_types = {}

        for old_field, new_field in list(six.iteritems(replaced_fields)):
            assert old_field.primary_key == new_field.primary_key

            # Only work with replaced fields that are a primary key. We won't
            # be updating any references to them at this point (keeping
            # consistent with long-term Django Evolution behavior).
            if old_field.primary_key:
                replaced_fields_by_name[old_field.name] = new_field

                if old_field.name != new_field.name:
                    renamed_fields[old_field.name] = new_field.name

                if old_field.column != new_field.column:
                    renamed_col_fields[old_field.name] = new_field
                    renamed_columns[old_field.column] = new_field.column

                old_db_type = old_field.db_type(connection=connection)
                new_db_type = new_field.db_type(connection=connection)

                if old_db_type != new_db_type:
                    replaced_field_types[old_field.name] = {
                        'old_field': old_field,
                        'new_field': new_field,
                    }

        sql_result = SQLResult()

        if not replaced_fields_by_name and not renamed_db_tables:
            # There's nothing to do.
            return sql_result, None

        m2m_refs = []
        replaced_field_refs = []
        models_to_refs = defaultdict(list)
        seen_m2m_models = set()

        # If there are any ManyToManyFields defined by this model, their
        # references will need to be stashed away and their constraints
        # dropped before the caller performs its operation. We'll loop
        # through each and make note of the appropriate references, based
        # on the caller-provided renamed tables/replaced fields.
        for field in model._meta.local_many_to_many:
            remote_field = get_remote_field(field)
            assert remote_field is not None

            through = remote_field.through
            assert through is not None

            if not db_state.has_model(through):
                continue

            through_meta = through._meta

            # Only process this ManyToManyField if we're renaming its table
            # or we're processing all tables.
            if (renamed_db_tables and
                through_meta.db_table not in renamed_db_tables):
                continue

            for through_field in through_meta.local_fields:
                through_remote_field = get_remote_field(through_field)

                if through_remote_field is None:
                    # This isn't a relation field It's probably the primary
                    # key of the intermediary table, or a custom field defined
                    # by an explicit model.
                    continue

                if (renamed_columns and
                    through_remote_field.field_name not in renamed_col_fields):
                    # We're operating only on specific fields, and this isn't
                    # one of them.
                    continue

                # Check the model on the other end of the field's relation.
                # We're checking that it's pointing back at this model, since
                # that may qualify as a field reference with a constraint
                # we'll need to update.
                #
                # If the model isn't pointing to the main model we're
                # operating on, we can ignore it.
                if get_remote_field_model(through_remote_field) == model:
                    # Stash this reference away so we know to restore it
                    # later.
                    m2m_refs.append((through, through_field))
                    models_to_refs[model].append((through, through_field))
                    seen_m2m_models.add(through._meta.db_table)

        for field_info in six.itervalues(replaced_field_types):
            old_rels = iter_non_m2m_reverse_relations(field_info['old_field'])
            new_rels = iter_non_m2m_reverse_relations(field_info['new_field'])

            for old_rel, new_rel in zip(old_rels, new_rels):
                rel_to_model = get_remote_field_model(old_rel)
                rel_from_model = get_remote_field_related_model(old_rel)
                old_rel_field = old_rel.field
                new_rel_field = new_rel.field

                assert old_rel_field.column == new_rel_field.column
                assert rel_to_model == get_remote_field_model(new_rel)
                assert (rel_from_model ==
                        get_remote_field_related_model(new_rel))

                replaced_field_refs.append((rel_from_model,
                                            old_rel_field,
                                            new_rel.field))
                if (rel_from_model._meta.db_table not in seen_m2m_models and
                    db_state.has_model(rel_from_model)):
                        models_to_refs[rel_to_model].append(
                            (rel_from_model, old_rel_field))

        if models_to_refs:
            remove_refs = models_to_refs.copy()

            for ref_to_model in six.iterkeys(models_to_refs):
                sql_result.add_sql(sql_delete_constraints(
                    connection=connection,
                    model=ref_to_model,
                    remove_refs=remove_refs))

        return sql_result, {
            'model': model,
            'm2m_refs': m2m_refs,
            'models_to_refs': models_to_refs,
            'renamed_db_tables': renamed_db_tables,
            'renamed_fields': renamed_fields,
            'replaced_fields': replaced_fields_by_name,
            'replaced_field_refs': replaced_field_refs,
            'replaced_field_types': replaced_field_types,
        }

    def restore_field_ref_constraints(self, stash):
        """Return SQL for adding back field constraints on a table.

        This should be called after performing an operation that renames a
        field or a ManyToMany table name on databases that support
        adding/dropping constraints on primary keys.

        This requires a prior call to :py:meth:`stash_field_ref_constraints`.

        Args:
            stash (dict):
                Stashed constraint data from
                :py:meth:`stash_field_ref_constraints`.

        Returns:
            django_evolution.sql_result.SQLResult:
            The SQL statements for adding back constraints on the field.
        """
        if not stash:
            # There's nothing to do.
            return SQLResult()

        connection = self.connection

        m2m_refs = stash['m2m_refs']
        replaced_fields = stash['replaced_fields']
        replaced_field_refs = stash['replaced_field_refs']
        renamed_db_tables = stash['renamed_db_tables']
        renamed_fields = stash['renamed_fields']
        models_to_refs = stash['models_to_refs']

        model = stash['model']
        meta = model._meta
        max_name_length = connection.ops.max_name_length()

        sql_result = SQLResult()

        # Loop through all model-to-relation references we stashed. We'll be
        # setting any new table names on intermediary/through tables that
        # are being renamed, and updating any fields on those tables that
        # are pointing to renamed/replaced fields.
        for through, through_field in m2m_refs:
            through_meta = through._meta

            # If any fields have been renamed, and those fields exist on this
            # intermediary table, update them to point to the new names.
            if renamed_fields:
                remote_field = get_remote_field(through_field)
                new_field_name = renamed_fields.get(remote_field.field_name)

                if new_field_name:
                    remote_field.field_name = new_field_name

            # If the intermediary table is being renamed, update its name now.
            new_db_table = renamed_db_tables.get(through_meta.db_table)

            if new_db_table:
                through_meta.db_table = truncate_name(new_db_table,
                                                      max_name_length)

        for ref_model, ref_field, new_field in replaced_field_refs:
            sql_result.add_sql(self.get_change_column_type_sql(
                model=ref_model,
                old_field=ref_field,
                new_field=new_field))

        # Replace any fields on the model with the new instances.
        model_fields = meta._fields

        for old_field_name, new_field in six.iteritems(replaced_fields):
            del model_fields[old_field_name]
            model_fields[new_field.name] = new_field

        if models_to_refs:
            add_refs = models_to_refs.copy()

            for ref_model in six.iterkeys(models_to_refs):
                sql_result.add_sql(sql_add_constraints(
                    connection=connection,
                    model=ref_model,
                    refs=add_refs))

        return sql_result

    def normalize_initial(self, initial):
        """Normalize an initial value.

        If the value is callable, it will be called and the result will be
        used. If that result is a string, it will be assumed to be something
        safe for embedding directly into SQL.

        Anything else is considered best used as a SQL parameter.

        Version Added:
            2.3

        Args:
            initial (object or callable):
                The initial value to normalize.

        Returns:
            tuple:
            A 2-tuple of:

            1. The normalized initial value.
            2. Whether it can be embedded directly into SQL. If ``False``, it
               should be used in SQL query parameter list.
        """
        if callable(initial):
            initial = initial()

            if isinstance(initial, six.text_type):
                return initial, True

        return initial, False

    def normalize_value(self, value):
        if isinstance(value, bool):
            return self.normalize_bool(value)

        return value

    def normalize_bool(self, value):
        if value:
            return 1
        else:
            return 0

    def _are_ops_mergeable(self, op1, op2):
        """Returns whether two operations can be merged.

        If two operation types are compatible, their operations can be
        merged together into a single AlterTableSQLResult. This checks
        to see if the operations qualify.
        """
        return (self._is_op_mergeable(op1) and
                self._is_op_mergeable(op2))

    def _is_op_mergeable(self, op):
        """Return whether an operation can be merged with adjacent ones.

        Args:
            op (dict):
                The operation to check.

        Returns:
            bool:
            ``True`` if the operation can be merged. ``False`` if it cannot.
        """
        return (op['type'] in self.mergeable_ops or
                (op['type'] == 'sql' and op.get('mergeable', False)))

    def _create_index_from_mutation_info(self, index_info):
        """Create and return a new index based on mutation information.

        This will parse out attributes passed to a mutation class and
        create a :py:class:`~django.db.models.Index` suitable for the
        current version of Django.

        Version Added:
            2.2

        Args:
            index_info (dict):
                Information passed to the mutation.

        Returns:
            django.db.models.Index:
            The resulting Index.
        """
        condition = index_info.get('condition')
        db_tablespace = index_info.get('db_tablespace')
        expressions = index_info.get('expressions')
        fields = index_info.get('fields')
        include = index_info.get('include')
        name = index_info.get('name')
        opclasses = index_info.get('opclasses')

        if expressions and supports_index_feature('expressions'):
            index_args = expressions
        else:
            index_args = ()

        index_kwargs = {
            _attr_name: _value
            for _attr_name, _value in (
                ('fields', fields),
                ('name', name),
                ('condition', condition),
                ('db_tablespace', db_tablespace),
                ('include', include),
                ('opclasses', opclasses),
            )
            if _value is not None and supports_index_feature(_attr_name)
        }

        return models.Index(*index_args, **index_kwargs)
