from __future__ import unicode_literals

from django.conf import settings


class EvolutionOperationsMulti(object):
    def __init__(self, db_name, database_state=None):
        """Initialize the instance.

        Args:
            db_name (unicode):
                The name of the database.

            database_state (django_evolution.db.state.DatabaseState):
                The database state to track information through.
        """
        if database_state is None:
            from django_evolution.db.state import DatabaseState
            database_state = DatabaseState(db_name, scan=False)

        try:
            from django.db import connections
            engine = settings.DATABASES[db_name]['ENGINE'].split('.')[-1]
            connection = connections[db_name]
            module_name = ['django_evolution.db', engine]
            module = __import__('.'.join(module_name), {}, {}, [''])
            self.evolver = module.EvolutionOperations(database_state,
                                                      connection)
        except ImportError:
            if hasattr(settings, 'DATABASE_ENGINE'):
                module_name = ['django_evolution.db', settings.DATABASE_ENGINE]
                module = __import__('.'.join(module_name), {}, {}, [''])
                self.evolver = module.EvolutionOperations(database_state)
            else:
                raise

    def get_evolver(self):
        return self.evolver
