"""Evolution operations backend for Postgres."""

from __future__ import unicode_literals

import django

from django_evolution.compat.db import truncate_name
from django_evolution.db.common import BaseEvolutionOperations
from django_evolution.db.sql_result import AlterTableSQLResult
from django_evolution.utils.models import get_field_is_relation


class EvolutionOperations(BaseEvolutionOperations):
    """Evolution operations for Postgres databases."""

    name = 'Postgres'

    default_tablespace = 'pg_default'

    change_column_type_sets_attrs = False

    #: A mapping of field types for use when altering types.
    #:
    #: Version Added:
    #:     2.2
    alter_field_type_map = {
        'bigserial': 'bigint',
        'serial': 'integer',
        'smallserial': 'smallint',
    }

    def get_change_column_type_sql(self, model, old_field, new_field):
        """Return SQL to change the type of a column.

        Version Added:
            2.2

        Args:
            model (type):
                The type of model owning the field.

            old_field (django.db.models.Field):
                The old field.

            new_field (django.db.models.Field):
                The new field.

        Returns:
            django_evolution.sql_result.AlterTableSQLResult:
            The SQL statements for changing the column type.
        """
        connection = self.connection
        qn = connection.ops.quote_name

        schema = self.build_column_schema(
            model=model,
            field=new_field,
            initial=new_field.default,
            skip_null_constraint=True,
            skip_primary_or_unique_constraint=True,
            skip_references=True)
        column_name = schema['name']
        table_name = model._meta.db_table

        sql_result = AlterTableSQLResult(self, model)

        old_field_type = old_field.db_type(connection=connection).lower()
        new_field_type = schema['db_type'].lower()

        was_serial = old_field_type in self.alter_field_type_map
        is_serial = new_field_type in self.alter_field_type_map

        if is_serial:
            # This is a serial field. We will need to change the type and
            # update the sequence. We will also need to choose the actual
            # type to set for the column definition.
            new_field_type = self.alter_field_type_map.get(new_field_type,
                                                           new_field_type)

        alter_type_params = ['TYPE', new_field_type] + schema['definition']

        if not self._are_column_types_compatible(old_field, new_field):
            alter_type_params += [
                'USING', '%s::%s' % (column_name, new_field_type),
            ]

        sql_result.add_alter_table([{
            'op': 'ALTER COLUMN',
            'column': column_name,
            'params': alter_type_params,
            'sql_params': schema['definition_sql_params'],
        }])

        if is_serial:
            # Reset the sequence.
            sequence_name = '%s_%s_seq' % (table_name, column_name)

            sequence_sql_result = AlterTableSQLResult(self, model)
            sequence_sql_result.add_pre_sql([
                'DROP SEQUENCE IF EXISTS %s CASCADE;' % qn(sequence_name),
                'CREATE SEQUENCE %s;' % qn(sequence_name),
            ])
            sequence_sql_result.add_alter_table([{
                'op': 'ALTER COLUMN',
                'column': column_name,
                'params': [
                    'SET',
                    'DEFAULT',
                    "nextval('%s')" % qn(sequence_name),
                ],
            }])
            sequence_sql_result.add_post_sql([
                "SELECT setval('%s', MAX(%s)) FROM %s;"
                % (qn(sequence_name),
                   qn(column_name),
                   qn(table_name)),
                'ALTER SEQUENCE %s OWNED BY %s.%s;'
                % (qn(sequence_name),
                   qn(table_name),
                   qn(column_name)),
            ])

            sql_result.add_post_sql(sequence_sql_result)
        elif was_serial:
            # Drop the old sequence, since we no longer need it.
            sequence_name = '%s_%s_seq' % (table_name, old_field.column)
            sql_result.add_post_sql([
                'DROP SEQUENCE IF EXISTS %s CASCADE;' % qn(sequence_name),
            ])

        return sql_result

    def rename_column(self, model, old_field, new_field):
        if old_field.column == new_field.column:
            # No Operation
            return []

        qn = self.connection.ops.quote_name
        max_name_length = self.connection.ops.max_name_length()

        sql_result = AlterTableSQLResult(self, model)

        pre_sql, stash = self.stash_field_ref_constraints(
            model=model,
            replaced_fields={
                old_field: new_field,
            })
        sql_result.add_pre_sql(pre_sql)

        sql_result.add_alter_table([{
            'independent': True,
            'sql': 'RENAME COLUMN %s TO %s'
                   % (truncate_name(qn(old_field.column),
                                    max_name_length),
                      truncate_name(qn(new_field.column),
                                    max_name_length)),
        }])

        sql_result.add_post_sql(self.restore_field_ref_constraints(stash))

        return sql_result

    def get_drop_unique_constraint_sql(self, model, index_name):
        qn = self.connection.ops.quote_name

        return AlterTableSQLResult(
            self,
            model,
            [{'sql': 'DROP CONSTRAINT %s' % qn(index_name)}]
        )

    def get_default_index_name(self, table_name, field):
        """Return a default index name for the database.

        This will return an index name for the given field that matches what
        the database or Django database backend would automatically generate
        when marking a field as indexed or unique.

        This can be overridden by subclasses if the database or Django
        database backend provides different values.

        Args:
            table_name (str):
                The name of the table for the index.

            field (django.db.models.Field):
                The field for the index.

        Returns:
            str:
            The name of the index.
        """
        if django.VERSION[:2] >= (1, 7):
            # On Django 1.7+, the default behavior for the index name is used.
            return super(EvolutionOperations, self).get_default_index_name(
                table_name, field)
        else:
            # On Django < 1.7, a custom form of index name is used.
            assert field.unique or field.db_index

            if field.unique:
                index_name = '%s_%s_key' % (table_name, field.column)
            elif field.db_index:
                index_name = '%s_%s' % (table_name, field.column)

            return truncate_name(index_name,
                                 self.connection.ops.max_name_length())

    def get_indexes_for_table(self, table_name):
        """Return all known indexes on a table.

        This is a fallback used only on Django 1.6, due to lack of proper
        introspection on that release.

        Args:
            table_name (unicode):
                The name of the table.

        Returns:
            dict:
            A dictionary mapping index names to a dictionary containing:

            ``columns`` (:py:class:`list`):
                The list of columns that the index covers.

            ``unique`` (:py:class:`bool`):
                Whether this is a unique index.
        """
        cursor = self.connection.cursor()
        indexes = {}

        cursor.execute(
            "SELECT i.relname as index_name, a.attname as column_name,"
            "       ix.indisunique"
            "  FROM pg_catalog.pg_class t, pg_catalog.pg_class i,"
            "       pg_catalog.pg_index ix, pg_catalog.pg_attribute a"
            " WHERE t.oid = ix.indrelid AND"
            "       i.oid = ix.indexrelid AND"
            "       a.attrelid = t.oid AND"
            "       a.attnum = ANY(ix.indkey) AND"
            "       t.relkind = 'r' AND"
            "       t.relname = %s"
            " ORDER BY i.relname, a.attnum;",
            [table_name])

        for row in cursor.fetchall():
            index_name = row[0]
            col_name = row[1]

            if index_name not in indexes:
                indexes[index_name] = {
                    'unique': row[2],
                    'columns': []
                }

            indexes[index_name]['columns'].append(col_name)

        return indexes

    def normalize_bool(self, value):
        if value:
            return True
        else:
            return False

    def change_column_attr_decimal_type(self, model, mutation, field,
                                        new_max_digits, new_decimal_places):
        """Return SQL for changing a column's max digits and decimal places.

        This is used for :py:class:`~django.db.models.DecimalField` and
        subclasses to change the maximum number of digits or decimal places.
        As these are used together as a column type, they must be considered
        together as one attribute change.

        Args:
            model (type):
                The model class that owns the field.

            mutation (django_evolution.mutations.BaseModelMutation):
                The mutation applying this change.

            field (django.db.models.DecimalField):
                The field being modified.

            new_max_digits (int):
                The new value for ``max_digits``. If ``None``, it wasn't
                provided in the attribute change.

            new_decimal_places (int):
                The new value for ``decimal_places``. If ``None``, it wasn't
                provided in the attribute change.

        Returns:
            django_evolution.db.sql_result.AlterTableSQLResult:
            The SQL for modifying the value.
        """
        if new_max_digits is not None:
            field.max_digits = new_max_digits

        if new_decimal_places is not None:
            field.decimal_places = new_decimal_places

        return self.alter_table_sql_result_cls(
            self,
            model,
            alter_table=[{
                'op': 'ALTER COLUMN',
                'column': field.column,
                'params': ['TYPE', field.db_type(connection=self.connection)],
            }]
        )

    def _are_column_types_compatible(self, old_field, new_field):
        """Return whether two column types are compatible.

        This is used to determine if casting needs to occur.

        If the internal types of two fields are the same, and is not an
        :py:class:`~django.contrib.postgres.fields.array.ArrayField`, then
        they are considered compatible.

        Otherwise, the Postgres column types are directly compared, iterating
        in the case of an
        :py:class:`~django.contrib.postgres.fields.array.ArrayField`.

        Version Added:
            2.2

        Args:
            old_field (django.db.models.Field):
                The old field.

            new_field (django.db.models.Field):
                The new field.

        Returns:
            bool:
            ``True`` if the column types of both fields are compatible.
            ``False`` if they are not.
        """
        old_internal_type = old_field.get_internal_type()
        new_internal_type = new_field.get_internal_type()

        if (old_internal_type == new_internal_type and
            new_internal_type != 'ArrayField'):
            return True

        return (list(self._iter_field_types(old_field)) ==
                list(self._iter_field_types(new_field)))

    def _iter_field_types(self, field):
        """Iterate through the types of fields.

        If the field is an
        :py:class:`~django.contrib.postgres.fields.array.ArrayField`, then
        this will yield the field types within.

        If this is a relation field, the relation type will be returned in
        a 1-item list.

        If this is any other kind of field, the data type will be returned
        in a 1-item list. The result may differ between versions of Django.

        Version Added:
            2.2

        Args:
            field (django.db.models.Field):
                The field to iterate through.

        Yields:
            unicode:
            Each field type.
        """
        try:
            base_field = field.base_field
        except AttributeError:
            base_field = field

        internal_type = base_field.get_internal_type()

        if internal_type == 'ArrayField':
            for field_type in self._iter_field_types(base_field):
                yield field_type
        elif get_field_is_relation(base_field):
            yield field.rel_db_type(self.connection)
        else:
            try:
                try:
                    # Django >= 1.8
                    yield self.connection.data_types[internal_type]
                except AttributeError:
                    # Django < 1.8
                    yield self.connection.creation.data_types[internal_type]
            except KeyError:
                yield field.db_type(self.connection)
