# MySQL_old behaviour is identical to mysql base
from django_evolution.db.mysql import EvolutionOperations


__all__ = ['EvolutionOperations']
