"""Evolution operations backend for MySQL/MariaDB."""

from __future__ import unicode_literals

from django.core.management import color

from django_evolution.compat.db import sql_delete_constraints
from django_evolution.compat.models import (get_rel_target_field,
                                            get_remote_field,
                                            get_remote_field_model)
from django_evolution.db.common import BaseEvolutionOperations
from django_evolution.db.sql_result import AlterTableSQLResult, SQLResult


class EvolutionOperations(BaseEvolutionOperations):
    """Evolution operations for MySQL and MariaDB databases."""

    name = 'MySQL / MariaDB'

    _NO_DEFAULT_FIELD_TYPES = {
        # Blob types
        'blob',
        'tinyblob',
        'mediumblob',
        'longblob',

        # Text types
        'text',
        'tinytext',
        'mediumtext',
        'longtext',

        # Misc.
        'json',
    }

    def get_field_type_allows_default(self, field):
        """Return whether default values are allowed for a field.

        Version Added:
            2.2

        Args:
            field (django.db.models.Field):
                The field to check.

        Returns:
            bool:
            ``True`` if default values are allowed. ``False`` if they're not.
        """
        field_type = field.db_type(connection=self.connection)

        return (field_type is not None and
                field_type.lower() not in self._NO_DEFAULT_FIELD_TYPES)

    def get_change_column_type_sql(self, model, old_field, new_field):
        """Return SQL to change the type of a column.

        Version Added:
            2.2

        Args:
            model (type):
                The type of model owning the field.

            old_field (django.db.models.Field):
                The old field.

            new_field (django.db.models.Field):
                The new field.

        Returns:
            django_evolution.sql_result.AlterTableSQLResult:
            The SQL statements for changing the column type.
        """
        schema = self.build_column_schema(
            model=model,
            field=new_field,
            initial=new_field.default,
            skip_references=True)

        alter_table_items = []

        if old_field.primary_key:
            alter_table_items.append({
                'sql': 'DROP PRIMARY KEY',
            })

        params = [schema['db_type']]

        if new_field.null:
            params.append('NULL')
        else:
            params.append('NOT NULL')

        alter_table_items.append({
            'op': 'MODIFY',
            'column': schema['name'],
            'params': [schema['db_type']] + schema['definition'],
            'sql_params': schema['definition_sql_params'],
        })

        return AlterTableSQLResult(self, model, alter_table_items)

    def delete_column(self, model, f):
        sql_result = AlterTableSQLResult(self, model)

        remote_field = get_remote_field(f)

        if remote_field:
            remote_field_model = get_remote_field_model(remote_field)

            sql_result.add(sql_delete_constraints(
                self.connection,
                remote_field_model,
                {remote_field_model: [(model, f)]}))

        sql_result.add_sql(
            super(EvolutionOperations, self).delete_column(model, f))

        return sql_result

    def rename_column(self, model, old_field, new_field):
        """Rename the specified column.

        This will rename the column through ``ALTER TABLE .. CHANGE COLUMN``.

        Any constraints on the column will be stashed away before the
        ``ALTER TABLE`` and restored afterward.

        If the column has not actually changed, or it's not a real column
        (a many-to-many relation), then this will return empty statements.

        Args:
            model (type):
                The model representing the table containing the column.

            old_field (django.db.models.Field):
                The old field definition.

            new_field (django.db.models.Field):
                The new field definition.

        Returns:
            django_evolution.db.sql_result.AlterTableSQLResult or list:
            The statements for renaming the column. This may be an empty
            list if the column won't be renamed.
        """
        if old_field.column == new_field.column:
            # No Operation
            return []

        col_type = new_field.db_type(connection=self.connection)

        if col_type is None:
            # Skip ManyToManyFields, because they're not represented as
            # database columns in this table.
            return []

        qn = self.connection.ops.quote_name
        sql_result = AlterTableSQLResult(self, model)

        pre_sql, stash = self.stash_field_ref_constraints(
            model=model,
            replaced_fields={
                old_field: new_field,
            })
        sql_result.add_pre_sql(pre_sql)

        schema = self.build_column_schema(model=model,
                                          field=new_field,
                                          initial=new_field.default)

        alter_table_items = []

        if old_field.primary_key:
            alter_table_items.append('DROP PRIMARY KEY')

        alter_table_items.append(
            'CHANGE COLUMN %s %s'
            % (qn(old_field.column), ' '.join([
                qn(schema['name']),
                schema['db_type'],
            ] + schema['definition'])))

        sql_result.add_alter_table([{
            'sql': ', '.join(alter_table_items),
        }])
        sql_result.add_post_sql(self.restore_field_ref_constraints(stash))

        return sql_result

    def set_field_null(self, model, field, null):
        if null:
            null_attr = 'DEFAULT NULL'
        else:
            null_attr = 'NOT NULL'

        return AlterTableSQLResult(
            self,
            model,
            [
                {
                    'op': 'MODIFY COLUMN',
                    'column': field.column,
                    'db_type': field.db_type(connection=self.connection),
                    'params': [null_attr],
                }
            ]
        )

    def change_column_attr_max_length(self, model, mutation, field, old_value,
                                      new_value):
        qn = self.connection.ops.quote_name

        field.max_length = new_value

        db_type = field.db_type(connection=self.connection)
        params = {
            'table': qn(model._meta.db_table),
            'column': qn(field.column),
            'length': field.max_length,
            'type': db_type,
        }

        return AlterTableSQLResult(
            self,
            model,
            pre_sql=[
                'UPDATE %(table)s SET %(column)s=LEFT(%(column)s,%(length)d);'
                % params,
            ],
            alter_table=[
                {
                    'op': 'MODIFY COLUMN',
                    'column': field.column,
                    'db_type': db_type,
                },
            ]
        )

    def get_drop_index_sql(self, model, index_name):
        qn = self.connection.ops.quote_name

        return SQLResult([
            'DROP INDEX %s ON %s;'
            % (qn(index_name), qn(model._meta.db_table))
        ])

    def get_change_unique_sql(self, model, field, new_unique_value,
                              constraint_name, initial):
        qn = self.connection.ops.quote_name
        opts = model._meta
        sql = []

        if new_unique_value:
            sql.append(
                'CREATE UNIQUE INDEX %s ON %s(%s);'
                % (constraint_name, qn(opts.db_table), qn(field.column)))
        else:
            sql.append(
                'DROP INDEX %s ON %s;'
                % (constraint_name, qn(opts.db_table)))

        return SQLResult(sql)

    def get_rename_table_sql(self, model, old_db_table, new_db_table):
        """Return SQL for renaming a table.

        Args:
            model (django.db.models.Model):
                The model representing the table to rename.

            old_db_table (unicode):
                The old table name.

            new_db_table (unicode):
                The new table name.

        Returns:
            django_evolution.db.sql_result.SQLResult:
            The resulting SQL for renaming the table.
        """
        qn = self.connection.ops.quote_name

        return SQLResult([
            'RENAME TABLE %s TO %s;'
            % (qn(old_db_table), qn(new_db_table))
        ])

    def get_default_index_name(self, table_name, field):
        """Return a default index name for the database.

        This will return an index name for the given field that matches what
        the database or Django database backend would automatically generate
        when marking a field as indexed or unique.

        This can be overridden by subclasses if the database or Django
        database backend provides different values.

        Args:
            table_name (str):
                The name of the table for the index.

            field (django.db.models.Field):
                The field for the index.

        Returns:
            str:
            The name of the index.
        """
        if (hasattr(self.connection, 'schema_editor') and
            get_remote_field(field) and field.db_constraint):
            # Django >= 1.7
            target_field = get_rel_target_field(field)

            return self.connection.schema_editor()._create_index_name(
                field.model,
                [field.column],
                suffix='_fk_%s_%s' % (target_field.model._meta.db_table,
                                      target_field.column))

        return super(EvolutionOperations, self).get_default_index_name(
            table_name, field)

    def get_indexes_for_table(self, table_name):
        """Return all known indexes on a table.

        This is a fallback used only on Django 1.6, due to lack of proper
        introspection on that release.

        Args:
            table_name (unicode):
                The name of the table.

        Returns:
            dict:
            A dictionary mapping index names to a dictionary containing:

            ``columns`` (:py:class:`list`):
                The list of columns that the index covers.

            ``unique`` (:py:class:`bool`):
                Whether this is a unique index.
        """
        cursor = self.connection.cursor()
        qn = self.connection.ops.quote_name
        indexes = {}

        try:
            cursor.execute('SHOW INDEX FROM %s;' % qn(table_name))
        except Exception:
            return {}

        for row in cursor.fetchall():
            index_name = row[2]
            col_name = row[4]

            if index_name not in indexes:
                indexes[index_name] = {
                    'unique': not bool(row[1]),
                    'columns': [],
                }

            indexes[index_name]['columns'].append(col_name)

        return indexes
