"""Classes for storing SQL statements and Alter Table operations."""

from __future__ import unicode_literals

try:
    # Django >= 2.0
    from django.db.backends.ddl_references import Statement
except ImportError:
    # Django <= 1.11
    Statement = None

from django_evolution.compat import six


class SQLResult(object):
    """Represents one or more SQL statements.

    This is returned by functions generating SQL statements. It can store
    the main SQL statements to execute, or SQL statements to be executed before
    or after the main statements.

    SQLResults can easily be added together or converted into a flat list of
    SQL statements to execute.
    """
    def __init__(self, sql=None, pre_sql=None, post_sql=None):
        self.sql = self.normalize_sql(sql or [])
        self.pre_sql = self.normalize_sql(pre_sql or [])
        self.post_sql = self.normalize_sql(post_sql or [])

    def add(self, sql_or_result):
        """Adds a list of SQL statements or an SQLResult.

        If an SQLResult is passed, its ``pre_sql``, ``sql``, and ``post_sql``
        lists will be added to this one.

        If a list of SQL statements is passed, it will be added to this
        SQLResult's sql list.

        Args:
            sql_or_result (object):
                The SQL to add. This may be one of the following:

                * Anopther instance of :py:class:`SQLResult`
                * A list of SQL statements
                * A single SQL statement
                * A tuple pair containing the SQL statement and arguments
                  for that statement
                * A function to call later when executing SQL statements

        Raises:
            TypeError:
                ``sql_or_result`` wasn't a supported type.
        """
        if sql_or_result is None:
            return

        if isinstance(sql_or_result, SQLResult):
            self.pre_sql += sql_or_result.pre_sql
            self.sql += sql_or_result.sql
            self.post_sql += sql_or_result.post_sql
        elif isinstance(sql_or_result, list):
            self.sql += sql_or_result
        elif isinstance(sql_or_result, six.string_types + (tuple,)):
            self.sql.append(sql_or_result)
        elif Statement is not None and isinstance(sql_or_result, Statement):
            self.sql.append('%s;' % sql_or_result)
        elif callable(sql_or_result):
            self.sql.append(sql_or_result)
        else:
            raise TypeError('SQLResult.add got unexpected type %s (%r)'
                            % (type(sql_or_result), sql_or_result))

    def add_pre_sql(self, sql_or_result):
        """Adds a list of SQL statements or an SQLResult to ``pre_sql``.

        If an SQLResult is passed, it will be converted into a list of SQL
        statements.
        """
        self.pre_sql += self.normalize_sql(sql_or_result)

    def add_sql(self, sql_or_result):
        """Adds a list of SQL statements or an SQLResult to ``sql``.

        If an SQLResult is passed, it will be converted into a list of SQL
        statements.
        """
        self.add(self.normalize_sql(sql_or_result))

    def add_post_sql(self, sql_or_result):
        """Adds a list of SQL statements or an SQLResult to ``post_sql``.

        If an SQLResult is passed, it will be converted into a list of SQL
        statements.
        """
        self.post_sql += self.normalize_sql(sql_or_result)

    def normalize_sql(self, sql_or_result):
        """Normalizes a list of SQL statements or an SQLResult into a list.

        If a list of SQL statements is provided, it will be returned. If
        an SQLResult is provided, it will be converted into a list of SQL
        statements and returned.
        """
        if isinstance(sql_or_result, SQLResult):
            return sql_or_result.to_sql()
        else:
            return sql_or_result or []

    def to_sql(self):
        """Flattens the SQLResult into a list of SQL statements."""
        return self.pre_sql + self.sql + self.post_sql

    def __repr__(self):
        return ('<SQLResult: pre_sql=%r, sql=%r, post_sql=%r>'
                % (self.pre_sql, self.sql, self.post_sql))


class AlterTableSQLResult(SQLResult):
    """Represents one or more SQL statements or Alter Table rules.

    This is returned by functions generating SQL statements. It can store
    the main SQL statements to execute, or SQL statements to be executed before
    or after the main statements.

    SQLResults can easily be added together or converted into a flat list of
    SQL statements to execute.
    """
    def __init__(self, evolver, model, alter_table=None, *args, **kwargs):
        super(AlterTableSQLResult, self).__init__(*args, **kwargs)
        self.evolver = evolver
        self.model = model
        self.alter_table = alter_table or []

    def add(self, sql_result):
        """Adds a list of SQL statements or an SQLResult.

        If an SQLResult is passed, its ``pre_sql``, ``sql``, and ``post_sql``
        lists will be added to this one.

        If an AlterTableSQLResult is passed, its ``alter_table`` lists will
        also be added to this one.

        If a list of SQL statements is passed, it will be added to this
        SQLResult's sql list.
        """
        super(AlterTableSQLResult, self).add(sql_result)

        if isinstance(sql_result, AlterTableSQLResult):
            self.alter_table += sql_result.alter_table

    def add_alter_table(self, alter_table):
        """Adds a list of Alter Table rules to ``alter_table``."""
        self.alter_table += alter_table

    def to_sql(self):
        """Flattens the AlterTableSQLResult into a list of SQL statements.

        Any ``alter_table`` entries will be collapsed together into
        ALTER TABLE statements.
        """
        sql = []
        sql += self.pre_sql

        if self.alter_table:
            qn = self.evolver.connection.ops.quote_name
            quoted_table_name = qn(self.model._meta.db_table)
            alter_table_batches = self._preprocess_alter_table_ops()

            for statements, sql_params in alter_table_batches:
                alter_table_sql = (
                    'ALTER TABLE %s %s;'
                    % (quoted_table_name, ', '.join(statements))
                )

                if sql_params:
                    sql.append((alter_table_sql, tuple(sql_params)))
                else:
                    sql.append(alter_table_sql)

        sql += self.sql
        sql += self.post_sql

        return sql

    def _preprocess_alter_table_ops(self):
        """Pre-processes Alter Table operations.

        This will attempt to merge together adjacent MODIFY COLUMN
        operations on a field to form a single MODIFY COLUMN.

        It will also split the Alter Table operations into batches,
        separated by operations setting independent=True.
        """
        qn = self.evolver.connection.ops.quote_name
        new_alter_table_items = []
        prev_op = None
        prev_item = None

        for item in self.alter_table:
            alter_table_attrs = []
            op = item.get('op', 'sql')

            if op == 'MODIFY COLUMN':
                if (prev_op == op and
                    prev_item['column'] == item['column'] and
                    prev_item['db_type'] == item['db_type']):
                    # We're issuing another MODIFY COLUMN on the same column,
                    # so combine.

                    if 'params' in item:
                        prev_params = prev_item.setdefault('params', [])

                        for param in item['params']:
                            if param and param not in prev_params:
                                prev_params.append(param)

                    if 'sql_params' in item:
                        prev_item.setdefault('sql_params', []).extend(
                            item['sql_params'])

                    # Skip adding this or setting the prev_op/prev_item.
                    continue

            new_alter_table_items.append(item)
            prev_op = op
            prev_item = item

        alter_table_statements = []
        alter_table_sql_params = []
        alter_table_batches = [(alter_table_statements,
                                alter_table_sql_params)]

        for item in new_alter_table_items:
            alter_table_attrs = []
            op = item.get('op', 'sql')
            independent = item.get('independent', False)

            if independent:
                # This particular ALTER TABLE statement needs to stand
                # alone, so break it up into its own batch.
                alter_table_statements = []
                alter_table_sql_params = []
                alter_table_batches.append((alter_table_statements,
                                            alter_table_sql_params))

            if op == 'sql':
                alter_table_attrs.append(item['sql'])
            else:
                alter_table_attrs.append(item['op'])

                if 'column' in item:
                    alter_table_attrs.append(qn(item['column']))

                if op in ('MODIFY COLUMN', 'ADD COLUMN') and 'db_type' in item:
                    alter_table_attrs.append(item['db_type'])

                if 'params' in item:
                    alter_table_attrs.extend([
                        param
                        for param in item['params']
                        if param
                    ])

            alter_table_statements.append(' '.join(alter_table_attrs))

            if 'sql_params' in item:
                alter_table_sql_params.extend(item['sql_params'])

            if independent:
                # Now that we've processed this independent statement,
                # start a new batch for the next.
                alter_table_statements = []
                alter_table_sql_params = []
                alter_table_batches.append((alter_table_statements,
                                            alter_table_sql_params))

        # Filter out any batches that we are empty, and return the result.
        return [
            alter_table_batch
            for alter_table_batch in alter_table_batches
            if alter_table_batch[0]
        ]

    def __repr__(self):
        return ('<AlterTableSQLResult: pre_sql=%r, sql=%r, post_sql=%r,'
                ' alter_table=%r>'
                % (self.pre_sql, self.sql, self.post_sql, self.alter_table))
