"""Configuration for Django Evolution.

Version Added:
    2.2
"""

from __future__ import unicode_literals

from copy import deepcopy

from django.conf import settings
from django.dispatch import receiver

try:
    # Django >= 1.8
    from django.core.signals import setting_changed
except ImportError:
    # Django < 1.8
    from django.test.signals import setting_changed

from django_evolution.compat import six
from django_evolution.deprecation import RemovedInDjangoEvolution30Warning


class DjangoEvolutionSettings(object):
    """Settings for Django Evolution.

    This wraps the settings defined in :py:mod:`django.conf.settings`. If
    ``settings.DJANGO_EVOLUTION`` is set, then all supported keys will be
    loaded.

    Legacy settings ( ``settings.DJANGO_EVOLUTION_ENABLED`` and
    ``settings.CUSTOM_EVOLUTIONS``), if found, will be loaded, and will cause
    a deprecation warning to be emitted.

    Version Added:
        2.2

    Attributes:
        CUSTOM_EVOLUTIONS:
            A mapping of app labels to lists of custom evolution modules.

            Type:
                dict

        ENABLED:
            Whether Django Evolution is enabled.

            If enabled, the ``syncdb`` and ``migrate`` management commands will
            instead use Django Evolution. Post-syncdb/migrate operations will
            also cause Django Evolution to track state.

            If disabled, the management commands will operate no differently
            than in a normal Django installation.

            Type:
                bool

        RENAMED_FIELD_TYPES:
            A mapping for fields that have been moved or renamed. This will map
            the old path to the new one, for purposes of loading and validating
            field signatures.

            Type:
                dict

            Version Added:
                2.4
    """

    #: Default settings for all keys.
    _DEFAULTS = {
        'CUSTOM_EVOLUTIONS': {},
        'ENABLED': True,
        'RENAMED_FIELD_TYPES': {},
    }

    #: All valid settings in settings.DJANGO_EVOLUTION.
    _VALID_SETTINGS = set(_DEFAULTS.keys())

    #: A mapping of all deprecated settings to modern settings.
    _DEPRECATED_SETTINGS = {
        'CUSTOM_EVOLUTIONS': 'CUSTOM_EVOLUTIONS',
        'DJANGO_EVOLUTION_ENABLED': 'ENABLED',
    }

    def __init__(self, settings_module):
        """Initialize the settings wrapper.

        Args:
            settings_module (module):
                The Django settings module to load from.
        """
        self.load_settings(settings_module)

    def load_settings(self, settings_module):
        """Set defaults and load settings.

        Args:
            settings_module (module):
                The Django settings module to load from.
        """
        # Load any custom settings.
        DJANGO_EVOLUTION = getattr(settings_module, 'DJANGO_EVOLUTION', None)

        if DJANGO_EVOLUTION is not None:
            self.replace_settings(DJANGO_EVOLUTION)
        else:
            # Set the defaults.
            self.replace_settings({})

            # Look for deprecated settings.
            for key in six.iterkeys(self._DEPRECATED_SETTINGS):
                if hasattr(settings_module, key):
                    self._set_deprecated_setting(
                        key,
                        getattr(settings_module, key))

    def replace_settings(self, new_settings):
        """Replace settings from a dictionary.

        This is expected to take the equivalent of a
        ``settings.DJANGO_EVOLUTION`` dictionary. Any valid settings found
        will be loaded. Any not found will be set back to defaults.

        Args:
            new_settings (dict):
                The new settings dictionary.
        """
        for key in self._VALID_SETTINGS:
            if key in new_settings:
                value = new_settings[key]
            else:
                value = deepcopy(self._DEFAULTS[key])

            setattr(self, key, value)

    def _set_deprecated_setting(self, key, value):
        """Set a deprecated setting.

        Args:
            key (unicode):
                The deprecated setting name.

            value (object):
                The new value.
        """
        new_key = self._DEPRECATED_SETTINGS[key]

        RemovedInDjangoEvolution30Warning.warn(
            '%s is deprecated and will be removed in Django '
            'Evolution 3.0. Please use '
            'settings.DJANGO_EVOLUTION["%s"] instead.'
            % (key, new_key))

        if value is None:
            value = deepcopy(self._DEFAULTS[new_key])

        setattr(self, new_key, value)


@receiver(setting_changed)
def _on_setting_changed(setting, value, **kwargs):
    """Handle changes to Django settings.

    This will update the settings in response to dynamic changes, such as
    from unit test runs.

    Version Added:
        2.2

    Args:
        setting (unicode):
            The name of the setting.

        value (object):
            The new value.

        **kwargs (dict, unused):
            Extra keyword arguments passed to the signal.
    """
    if setting == 'DJANGO_EVOLUTION':
        django_evolution_settings.replace_settings(value or {})
    elif setting in django_evolution_settings._DEPRECATED_SETTINGS:
        django_evolution_settings._set_deprecated_setting(setting, value)


django_evolution_settings = DjangoEvolutionSettings(settings)
