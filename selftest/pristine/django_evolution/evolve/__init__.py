"""Main interface for evolving applications.

Version Changed:
    2.2:
    The classes have all moved to nested modules, but this module will continue
    to provide forwarding imports.

.. autosummary::
   :nosignatures:

   ~django_evolution.evolve.base.BaseEvolutionTask
   ~django_evolution.evolve.evolver.Evolver
   ~django_evolution.evolve.evolve_app_task.EvolveAppTask
   ~django_evolution.evolve.purge_app_task.PurgeAppTask
"""

from __future__ import unicode_literals

import logging

from django_evolution.evolve.base import BaseEvolutionTask
from django_evolution.evolve.evolver import Evolver
from django_evolution.evolve.evolve_app_task import EvolveAppTask
from django_evolution.evolve.purge_app_task import PurgeAppTask


logger = logging.getLogger(__name__)


__all__ = (
    'BaseEvolutionTask',
    'Evolver',
    'EvolveAppTask',
    'PurgeAppTask',
    'logging',
)

__autodoc_excludes__ = __all__
