"""Task for evolving an application.

Version Added:
    2.2:
    This was previously located in :py:mod:`django_evolution.evolve`.
"""

from __future__ import unicode_literals

import itertools
import logging
from collections import OrderedDict

from django_evolution.compat import six
from django_evolution.compat.db import (db_get_installable_models_for_app,
                                        sql_create_models)
from django_evolution.compat.translation import gettext as _
from django_evolution.consts import UpgradeMethod
from django_evolution.errors import EvolutionExecutionError
from django_evolution.evolve.base import BaseEvolutionTask
from django_evolution.models import Evolution
from django_evolution.mutations import AddField
from django_evolution.mutators import AppMutator
from django_evolution.signals import (applied_evolution,
                                      applying_evolution,
                                      created_models,
                                      creating_models)
from django_evolution.support import supports_migrations
from django_evolution.utils.apps import get_app_label, get_legacy_app_label
from django_evolution.utils.datastructures import (filter_dup_list_items,
                                                   merge_dicts)
from django_evolution.utils.evolutions import (get_app_pending_mutations,
                                               get_app_upgrade_info,
                                               get_applied_evolutions,
                                               get_evolution_sequence,
                                               get_unapplied_evolutions)
from django_evolution.utils.graph import EvolutionGraph
from django_evolution.utils.migrations import (
    MigrationExecutor,
    MigrationList,
    apply_migrations,
    clear_global_custom_migrations,
    create_pre_migrate_state,
    emit_post_migrate_or_sync,
    emit_pre_migrate_or_sync,
    filter_migration_targets,
    finalize_migrations,
    is_migration_initial,
    record_applied_migrations,
    register_global_custom_migrations)


logger = logging.getLogger(__name__)


class EvolveAppTask(BaseEvolutionTask):
    """A task for evolving models in an application.

    This task will run through any evolutions in the provided application and
    handle applying each of those evolutions that haven't yet been applied.

    Attributes:
        app (module):
            The app module to evolve.

        app_label (unicode):
            The app label for the app to evolve.
    """

    @classmethod
    def prepare_tasks(cls, evolver, tasks, hinted=False, **kwargs):
        """Prepare a list of tasks.

        If migrations are supported, then before preparing any of the tasks,
        this will begin setting up state needed to apply any migrations for
        apps that use them (or will use them after any evolutions are applied).

        After tasks are prepared, this will apply any migrations that need to
        be applied, updating the app's signature appropriately and recording
        all applied migrations.

        Args:
            evolver (Evolver):
                The evolver that's handling the tasks.

            tasks (list of BaseEvolutionTask):
                The list of tasks to prepare. These will match the current
                class.

            **kwargs (dict):
                Keyword arguments to pass to the tasks' `:py:meth:`prepare`
                methods.

        Raises:
            django_evolution.errors.BaseMigrationError:
                There was an error with the setup or validation of migrations.
                A subclass containing additional details will be raised.
        """
        # Register any custom migrations that we want globally available.
        # This is of course not thread-safe, but nobody should be doing
        # concurrent migrations, or they're in for a pretty bad time.
        if supports_migrations:
            custom_migrations = MigrationList()

            for task in tasks:
                for migration in task._migrations or []:
                    custom_migrations.add_migration(migration)

            register_global_custom_migrations(custom_migrations)

        try:
            # We're going to let Django determine a plan for all migrations,
            # and we'll determine a plan for evolutions. These will be
            # combined into a dependency graph, which will produce the order
            # in which we'll need to apply migrations and evolutions.
            #
            # First, run through the tasks, preparing state that we'll use to
            # build the migrations and evolutions graph and resulting batches.
            super(EvolveAppTask, cls).prepare_tasks(
                evolver=evolver,
                tasks=tasks,
                hinted=hinted,
                **kwargs)

            # Now we can generate the remaining state needed to determine
            # the order in which migrations and evolutions need to be applied.
            # We'll compute the migration plans, build a graph from it, and
            # then convert that into batches for execution.
            migration_executor = cls._build_migration_executor(
                evolver=evolver,
                tasks=tasks)
            migrations_info = cls._build_migrations_info(
                evolver=evolver,
                migration_executor=migration_executor,
                tasks=tasks)
            graph = cls._build_evolutions_graph(
                evolver=evolver,
                migration_executor=migration_executor,
                migrations_info=migrations_info,
                tasks=tasks)
            batches = cls._build_batches(
                evolver=evolver,
                graph=graph,
                hinted=hinted)

            # Set some state that execute_tasks() and unit tests can get to.
            evolver._evolve_app_task_state = {
                # These are used for the execution stage.
                'batches': batches,
                'full_migration_plan': migrations_info.get('full_plan'),
                'migration_executor': migration_executor,
                'pre_migrate_state':
                    migrations_info.get('pre_migrate_state'),

                # These are just stored for the benefit of unit tests.
                'post_migration_plan': migrations_info.get('post_plan'),
                'post_migration_targets':
                    migrations_info.get('post_targets'),
                'pre_migration_plan': migrations_info.get('pre_plan'),
                'pre_migration_targets': migrations_info.get('pre_targets'),
            }
        finally:
            # Always unregister the custom migrations, so that a failure here
            # doesn't prevent any later evolver (for this or another database)
            # from being prepared.
            clear_global_custom_migrations()

    @classmethod
    def execute_tasks(cls, evolver, tasks, **kwargs):
        """Execute a list of tasks.

        This is responsible for calling :py:meth:`execute` on each of the
        provided tasks. It can augment this by executing any steps before or
        after the tasks.

        Args:
            evolver (Evolver):
                The evolver that's handling the tasks.

            tasks (list of BaseEvolutionTask):
                The list of tasks to execute. These will match the current
                class.

            cursor (django.db.backends.util.CursorWrapper):
                The database cursor used to execute queries.

            **kwargs (dict):
                Keyword arguments to pass to the tasks' `:py:meth:`execute`
                methods.
        """
        state = evolver._evolve_app_task_state
        batches = state['batches']
        full_migration_plan = state['full_migration_plan']
        migrate_state = state['pre_migrate_state']
        migration_executor = state['migration_executor']

        migrating = full_migration_plan is not None
        new_models = list(itertools.chain.from_iterable(
            task.new_models
            for task in tasks
        ))

        logger.debug('New models: %r', new_models)

        if migrating:
            # If we have any applied migration names we wanted to record, do it
            # before we begin any migrations.
            applied_migrations = \
                state['migration_executor'].loader.extra_applied_migrations

            if applied_migrations:
                record_applied_migrations(connection=evolver.connection,
                                          migrations=applied_migrations)

        # Let any listeners know that we're beginning the process.
        emit_pre_migrate_or_sync(verbosity=evolver.verbosity,
                                 interactive=evolver.interactive,
                                 database_name=evolver.database_name,
                                 create_models=new_models,
                                 pre_migrate_state=migrate_state,
                                 plan=full_migration_plan)

        if migrating and migrate_state:
            migrate_state = migrate_state.clone()

        deferred_sql = []

        for batch_info in batches:
            batch_type = batch_info['type']

            if batch_type == UpgradeMethod.EVOLUTIONS:
                # We have evolutions and/or model creations to apply.
                with evolver.sql_executor(check_constraints=False) as \
                        sql_executor:
                    new_models_sql = batch_info.get('new_models_sql')

                    if new_models_sql:
                        deferred_sql += batch_info['new_models_deferred_sql']
                        cls._create_models(
                            sql_executor=sql_executor,
                            evolver=evolver,
                            tasks=batch_info['new_models_tasks'],
                            sql=new_models_sql)

                    # Process any evolutions for the apps.
                    task_evolutions = batch_info.get('task_evolutions', {})

                    for task, task_info in six.iteritems(task_evolutions):
                        task_sql = task_info.get('sql')

                        if task_sql:
                            # Only announce the evolutions that are part of
                            # this batch, not every pending evolution of the
                            # task.
                            batch_labels = set(
                                task_info.get('evolutions', []))

                            task.execute(
                                sql_executor=sql_executor,
                                sql=task_sql,
                                evolutions=[
                                    evolution
                                    for evolution in task.new_evolutions
                                    if evolution.label in batch_labels
                                ],
                                **kwargs)
            elif batch_type == UpgradeMethod.MIGRATIONS:
                assert migrating

                # We have a batch of migrations to apply.
                migrate_state = apply_migrations(
                    executor=migration_executor,
                    targets=batch_info['migration_targets'],
                    plan=batch_info['migration_plan'],
                    pre_migrate_state=migrate_state)
            else:
                # This should never be reached.
                raise ValueError(
                    '%s is not a valid type for a batch! This should never '
                    'have happened. Please file a bug or contact support.'
                    % batch_type)

        if migrating:
            finalize_migrations(migrate_state)

            # Write the new lists of applied migrations out to the signature.
            applied_migrations = \
                MigrationList.from_database(evolver.connection)
            project_sig = evolver.project_sig

            for app_label in applied_migrations.get_app_labels():
                app_sig = project_sig.get_app_sig(app_label)

                if app_sig is not None:
                    # The signature will take care of storing only the
                    # migrations that apply to it when we assign this.
                    app_sig.applied_migrations = applied_migrations

        # Let any listeners know that we've finished the process.
        emit_post_migrate_or_sync(verbosity=evolver.verbosity,
                                  interactive=evolver.interactive,
                                  database_name=evolver.database_name,
                                  created_models=new_models,
                                  post_migrate_state=migrate_state,
                                  plan=full_migration_plan)

        # Apply any deferred new model SQL.
        if deferred_sql:
            with evolver.sql_executor() as sql_executor:
                EvolveAppTask._apply_deferred_sql(
                    sql_executor=sql_executor,
                    evolver=evolver,
                    sql=deferred_sql)

    @classmethod
    def _build_migration_executor(cls, evolver, tasks):
        """Return a MigrationExecutor for loading and executing migrations.

        The executor is responsible for loading any migrations from disk and
        from the database, along with any custom migrations passed in when
        constructing a :py:class:`EvolveAppTask`, along with validating the
        dependencies and later applying migrations.

        If migration support is not available in the version of Django, this
        will return ``None`` instead.

        Args:
            evolver (Evolver):
                The evolver executing the tasks.

            tasks (list of EvolveAppTask):
                The list of tasks that were prepared.

        Returns:
            django_evolution.utils.migrations.MigrationExecutor:
            The resulting migration executor, or ``None`` if using a version
            of Django without migrations support.

        Raises:
            django_evolution.errors.BaseMigrationError:
                There was an error with the setup or validation of migrations.
                A subclass containing additional details will be raised.
        """
        if not supports_migrations:
            return None

        migration_executor = MigrationExecutor(
            connection=evolver.connection,
            signal_sender=evolver)
        migration_executor.run_checks()

        return migration_executor

    @classmethod
    def _build_migrations_info(cls, evolver, migration_executor, tasks):
        """Build information on the migrations to perform.

        This will construct three migration plans:

        1. A full plan (a beginning-to-end migration, like Django would
           normally apply).
        2. A "pre"-stage plan (any and all initial migrations that would
           set up models for the first time).
        3. A "post"-stage plan (all remaining migrations).

        The pre and post plans are used to bookend a list of evolutions.
        The pre plan will create the initial models, allowing evolutions to
        operate on them (which may have been constructed to modify models
        introduced prior to Django's migrations). The post plan can then
        be run once an evolution moves the app to migrations.

        This will also calculate initial migration state to update when
        migrations are later run, calculated lists of migration targets
        (primarily for unit testing), and information on migrations that are
        or will be marked as applied.

        If migrations are not supported on this version of Django, this will
        return an empty dictionary.

        Args:
            evolver (Evolver):
                The evolver executing the tasks.

            migration_executor (django_evolution.utils.migrations.
                                MigrationExecutor):
                The migration executor that was constructed for these tasks.

            tasks (list of EvolveAppTask):
                The list of tasks that were prepared.

        Returns:
            dict:
            Calculated state for the migrations.

            If migrations are supported, then this will contain the following
            at a minimum:

            ``pre_migrate_state`` (:py:class:`django.db.migrations.state.ProjectState`):
                The migration state before any new migrations are applied.
                Executed migrations will update this state, and the state will
                be passed in any Django signal emissions.

            If migrations are to be executed, then this will also contain:

            ``full_plan`` (list of tuple):
                The full migration plan.

            ``to_mark_applied`` (:py:class:`~django_evolution.utils.migrations.MigrationList):
                A list of migrations that should be marked as applied in the
                migration graph.

            ``post_plan`` (list of tuple):
                The post stage migration plan.

            ``post_targets`` (list of tuple):
                The post stage migration targets. These are the desired
                migrations that a plan is built from.

            ``pre_plan`` (list of tuple):
                The pre stage migration plan.

            ``pre_targets`` (list of tuple):
                The pre stage migration targets. These are the desired
                migrations that a plan is built from.

            If migrations aren't supported on this version of Django, the
            dictionary will be empty.

        Raises:
            django_evolution.errors.BaseMigrationError:
                There was an error with the setup or validation of migrations.
                A subclass containing additional details will be raised.
        """
        if not supports_migrations:
            return {}

        assert migration_executor is not None

        full_migration_plan = []
        pre_migration_plan = None
        pre_migration_targets = None
        post_migration_plan = None
        post_migration_targets = None

        # Now that we have updated signatures from any evolutions (which
        # may have applied MoveToDjangoMigrations mutators), we can start
        # to figure out the migration plan.
        migration_loader = migration_executor.loader
        extra_applied_migrations = migration_loader.extra_applied_migrations
        assert not extra_applied_migrations

        migrations_to_mark_applied = MigrationList()
        applied_migrations = MigrationList.from_database(evolver.connection)
        migration_app_labels = set()

        if applied_migrations:
            migrations_to_mark_applied.update(applied_migrations)

        # Run through the new applied migrations marked in any app
        # signatures and find any that we're planning to record.
        for task in tasks:
            if task.upgrade_method == UpgradeMethod.MIGRATIONS:
                migration_app_labels.add(task.app_label)

                if task.app_sig is not None and task.applied_migrations:
                    # Figure out which applied migrations the mutator or
                    # signature listed that we don't have in the database.
                    new_applied_migrations = (task.applied_migrations -
                                              applied_migrations)

                    if new_applied_migrations:
                        # We found some. Mark them as being applied. We'll
                        # record them during the execution phase.
                        extra_applied_migrations.update(new_applied_migrations)

        if extra_applied_migrations:
            migrations_to_mark_applied.update(extra_applied_migrations)

        if migration_app_labels:
            if extra_applied_migrations:
                # Rebuild the migration graph, based on anything we've
                # added to extra_applied_migrations above (which is a local
                # reference to the variable on MigrationLoader), and re-run
                # checks.
                migration_loader.build_graph()
                migration_executor.run_checks()

            # Build the lists of migration targets we'll be applying. Each
            # entry lists an app label and a migration name. We're
            # limiting these to the apps we know we'll be migrating.
            excluded_targets = (applied_migrations +
                                extra_applied_migrations).to_targets()

            # First, generate a full migration plan that covers the entire
            # beginning to end of the process. We'll use this for signal
            # emissions.
            full_migration_targets = filter_migration_targets(
                targets=migration_loader.graph.leaf_nodes(),
                app_labels=migration_app_labels)

            if full_migration_targets:
                full_migration_plan = migration_executor.migration_plan(
                    full_migration_targets)

            pre_migrate_state = create_pre_migrate_state(migration_executor)

            # Next, try to find all the initial migrations. These will
            # be ones that are root migrations (have no parents in the
            # app) and aren't already marked as applied.
            pre_migration_targets = []
            root_migration_targets = filter_migration_targets(
                targets=migration_loader.graph.root_nodes(),
                app_labels=migration_app_labels,
                exclude=excluded_targets)

            for migration_target in root_migration_targets:
                migration = \
                    migration_loader.get_migration(*migration_target)

                if is_migration_initial(migration):
                    pre_migration_targets.append(migration_target)

            if pre_migration_targets:
                pre_migration_targets = filter_migration_targets(
                    targets=pre_migration_targets,
                    app_labels=migration_app_labels,
                    exclude=excluded_targets)

                pre_migration_plan = migration_executor.migration_plan(
                    pre_migration_targets)

                # Temporarily consider these as applied, so that we can
                # compute the post-stage plan below. They must not stay in
                # this list, as execute_tasks() records everything in it as
                # applied before running anything.
                orig_extra_applied_migrations = \
                    extra_applied_migrations.clone()

                excluded_targets.update(pre_migration_targets)
                extra_applied_migrations.add_migration_targets(
                    pre_migration_targets)
                migration_loader.build_graph(reload_migrations=False)
                migration_executor.run_checks()

            # Now try to find all the migrations we'd want to apply after
            # any evolutions take place. These will be ones that haven't
            # already been applied and haven't been handled in the pre
            # migration set.
            post_migration_targets = filter_migration_targets(
                targets=migration_loader.graph.leaf_nodes(),
                app_labels=migration_app_labels,
                exclude=excluded_targets)

            if post_migration_targets:
                post_migration_plan = migration_executor.migration_plan(
                    post_migration_targets)

                if pre_migration_plan:
                    # Filter this to include only those items not in
                    # pre_migration_plan
                    pre_migration_plan_set = set(pre_migration_plan)
                    post_migration_plan = [
                        plan_item
                        for plan_item in post_migration_plan
                        if plan_item not in pre_migration_plan_set
                    ]

            if pre_migration_targets:
                migration_loader.extra_applied_migrations = \
                    orig_extra_applied_migrations
        else:
            # We may not be migrating, but we still want this state
            # for signal emissions, so create it now.
            pre_migrate_state = create_pre_migrate_state(migration_executor)

        # If we don't have anything to do, then all we'll need to set is
        # pre_migrate_state, since we'll still want it for signal emissions.
        #
        # The list of applied migrations is always needed as well, since
        # evolutions may depend on migrations that were applied in the past
        # (or are being marked as applied now), whether or not there are any
        # migrations left to execute.
        result = {
            'pre_migrate_state': pre_migrate_state,
            'to_mark_applied': migrations_to_mark_applied,
        }

        if not pre_migration_plan:
            pre_migration_plan = None
            pre_migration_targets = None

        if not post_migration_plan:
            post_migration_plan = None
            post_migration_targets = None

        if (pre_migration_plan or post_migration_plan or
            extra_applied_migrations):
            # Even if there's nothing left to execute, any migrations newly
            # marked as applied still need to be recorded during execution.
            result.update({
                'full_plan': full_migration_plan,
                'post_plan': post_migration_plan,
                'post_targets': post_migration_targets,
                'pre_plan': pre_migration_plan,
                'pre_targets': pre_migration_targets,
            })

        return result

    @classmethod
    def _build_evolutions_graph(cls, evolver, migration_executor,
                                migrations_info, tasks):
        """Return an EvolutionGraph covering all migrations and evolutions.

        The resulting graph will reflect the dependency relationships between
        all migrations and evolutions that Django Evolution will apply,
        allowing the database operations to be executed in the correct order.

        This will have a loose default ordering of:

        1. Pre-stage migrations
        2. Per-app evolutions in task order
        3. Post-stage migrations

        That mirrors the behavior of Django Evolution 2.0. Any dependencies
        specified by migrations and evolutions will alter this order.

        Args:
            evolver (Evolver):
                The evolver executing the tasks.

            migration_executor (django_evolution.utils.migrations.
                                MigrationExecutor):
                The migration executor that was constructed for these tasks.

            migrations_info (dict):
                Calculated migration information from
                :py:meth:`_build_migrations_info`.

            tasks (list of EvolveAppTask):
                The list of tasks that were prepared.

        Returns:
            django_evolution.utils.graph.EvolutionGraph:
            The resulting evolution graph.
        """
        # Build the dependency graph of evolutions and migrations. This will
        # give us an order in which changes should be applied.
        graph = EvolutionGraph()
        database_name = evolver.database_name

        if migration_executor is not None:
            migration_loader = migration_executor.loader
        else:
            migration_loader = None

        # First, add in the pre-stage migration plan from Django. These will
        # consist of the 0001_initial migrations, creating models that might
        # be needed/referenced by any models managed by Django Evolution or
        # post-stage migrations.
        pre_migration_plan = migrations_info.get('pre_plan')

        if pre_migration_plan:
            graph.add_migration_plan(pre_migration_plan,
                                     migration_loader.graph)

        # Next, the evolutions. All new evolutions for an app will depend on
        # each other by default.
        #
        # An evolution may also depend on another migration or another
        # evolution.
        for task in tasks:
            if task.evolution_required:
                # The task may have prepared new models or evolutions to track,
                # but we may not want to add them to the graph at this stage.
                # Models should only be added if we know we're responsible for
                # generating their SQL, and evolutions should only be added if
                # the app is going to be set up using evolutions instead of
                # migrations.
                if task._new_models_sql:
                    new_models = task.new_models
                else:
                    new_models = []

                if task.hinted_evolution is not None:
                    new_evolutions = [task.hinted_evolution]
                elif task.new_evolutions:
                    new_evolutions = task.new_evolutions
                else:
                    new_evolutions = []

                if new_evolutions or new_models:
                    graph.add_evolutions(
                        app=task.app,
                        evolutions=new_evolutions,
                        new_models=new_models,
                        custom_evolutions=task._evolutions,
                        extra_state={
                            'task': task,
                        })

        # Now that the evolutions are added, add the post-stage migrations.
        # These will be any migrations that either build upon an initial
        # migration or add new content to an app formerly managed by an
        # evolution.
        post_migration_plan = migrations_info.get('post_plan')

        if post_migration_plan:
            graph.add_migration_plan(post_migration_plan,
                                     migration_loader.graph)

        # Everything is added, and dependencies are formed. Some of those
        # dependencies may reference evolutions or migrations in the graph
        # that we haven't added (ones that were already previously applied).
        # Remove those dependencies by telling the graph which migrations we
        # have applied.
        migrations_to_mark_applied = migrations_info.get('to_mark_applied')

        if migrations_to_mark_applied:
            graph.mark_migrations_applied(migrations_to_mark_applied)

        for task in tasks:
            applied_evolutions = get_applied_evolutions(task.app,
                                                        database=database_name)

            if applied_evolutions:
                graph.mark_evolutions_applied(task.app, applied_evolutions)

        # The graph is built! Finalize it (which will check that all
        # dependencies are valid) so we can begin converting it into batches
        # of operations.
        graph.finalize()

        return graph

    @classmethod
    def _build_batches(cls, evolver, graph, hinted):
        """Return batches of evolution/migration operations to execute.

        This takes the order of migrations, evolutions, and model creations
        from an evolution graph and converts it into batches of sequential
        operations that can be performed in :py:meth:`execute_tasks`.

        Each resulting batch will represent either a migration or an
        evolution.

        If a batch represents an evolution, it will contain the following keys:

        ``new_models_sql`` (list, optional):
            The complete, optimized list of SQL statements to execute to
            create models for this batch.

            This will only be present if there are models to create.

        ``new_models_tasks`` (list of EvolveAppTask):
            The list of tasks that generated the SQL.

            This will only be present if there are models to create.

        ``task_evolutions`` (dict):
            A dictionary mapping a :py:class:`EvolveAppTask` instance to
            a dictionary of information containing:

            ``evolutions`` (list of unicode, optional):
                A list of evolution labels being added for that task.

            ``mutations`` (list of :py:class:`~django_evolution.mutations.BaseMutation, optional):
                The optimized list of mutations being run.

            ``sql`` (list):
                The optimized SQL generated from the mutations.

        ``type`` (unicode):
            This will be set to :py:attr:`UpgradeMethod.EVOLUTIONS
            <django_evolution.consts.UpgradeMethod.EVOLUTIONS>`.

        If a batch represents a migration, it will contain the following keys:

        ``migration_plan`` (list of tuple):
            The migration plan for the batch.

        ``migration_targets`` (list of tuple):
            The migration targets for the batch.

        ``type`` (unicode):
            This will be set to :py:attr:`UpgradeMethod.MIGRATIONS
            <django_evolution.consvts.UpgradeMethod.MIGRATIONS>`.

        Args:
            evolver (Evolver):
                The evolver executing the tasks.

            graph (django_evolution.utils.graph.EvolutionGraph):
                The finalized evolution graph.

            hinted (bool):
                Whether a hinted evolution was requested.

        Returns:
            list of dict:
            The list of batches.
        """
        database_name = evolver.database_name

        # Now we'll need to iterate through the batches from the graph and
        # start building more consolidated batches of operations to perform.
        # Any adjancent model creations/evolutions will be converted into a
        # single EVOLUTIONS batch, anad adjacent migrations will be
        # converted into a single MIGRATIONS batch.
        batches = []
        prev_batch_type = None
        prev_batch_info = None

        for node_batch_type, batch_nodes in graph.iter_batches():
            batch_info = {}
            batch_type = None

            if node_batch_type == graph.NODE_TYPE_CREATE_MODEL:
                # This batch creates one or more models. Store the list of
                # new models and the SQL for creating them.
                #
                # This will always be the start of a new batch. It cannot
                # merge into a preceding evolutions batch.
                batch_type = UpgradeMethod.EVOLUTIONS
                batch_info = {
                    'new_models': [
                        node.state['model']
                        for node in batch_nodes
                    ],
                    'new_models_nodes': batch_nodes,
                }
            elif node_batch_type == graph.NODE_TYPE_EVOLUTION:
                # This batch applies new evolutions. Store the list of tasks
                # and their corresponding evolutions.
                task_evolutions = OrderedDict()

                for node in batch_nodes:
                    task = node.state['task']
                    evolution = node.state['evolution']

                    task_info = task_evolutions.setdefault(task, {})
                    task_info.setdefault('evolutions', []).append(
                        evolution.label)

                batch_type = UpgradeMethod.EVOLUTIONS
                batch_info = {
                    'task_evolutions': task_evolutions,
                }
            elif node_batch_type == graph.NODE_TYPE_MIGRATION:
                # This batch applies new migrations. Store the plan and
                # targets.
                #
                # We shouldn't receive two consecutive migration batches, so
                # check for that.
                assert prev_batch_type != UpgradeMethod.MIGRATIONS

                migration_plan = []
                migration_targets = []

                for node in batch_nodes:
                    migration_plan.append(node.state['migration_plan_item'])
                    migration_targets.append(node.state['migration_target'])

                batch_type = UpgradeMethod.MIGRATIONS
                batch_info = {
                    'migration_plan': migration_plan,
                    'migration_targets': migration_targets,
                }
            else:
                # This should never be reached.
                raise ValueError(
                    '%s is not a valid type for a batch! This should never '
                    'have happened. Please file a bug or contact support.'
                    % batch_type)

            # Now that we have new information, let's put this into a batch.
            assert batch_info is not None
            assert batch_type is not None

            if batch_type == prev_batch_type:
                # We're updating the previous batch.
                #
                # We'll need to merge the new information into the existing
                # batch, recursively.
                assert prev_batch_info is not None

                merge_dicts(prev_batch_info, batch_info)
            else:
                # We have a new batch. Set the type and add it to the list of
                # batches.
                batch_info['type'] = batch_type
                batches.append(batch_info)

                prev_batch_info = batch_info
                prev_batch_type = batch_type

        # Now let's perform one last pass, this time through the new
        # consolidated batches. That information will be used to generate
        # the SQL and combined state needed during the execute_tasks() and
        # execute() stages.
        if hinted:
            hinted_evolution = evolver.initial_diff.evolution()
        else:
            hinted_evolution = None

        for batch_info in batches:
            if batch_info['type'] == UpgradeMethod.EVOLUTIONS:
                new_models = batch_info.pop('new_models', None)

                if new_models:
                    # We can now calculate the SQL for all these models.
                    #
                    # We'll also need to grab each unique task in order. For
                    # that, use an OrderedDict's keys, simulating an ordered
                    # set.
                    new_models_nodes = batch_info.pop('new_models_nodes')
                    assert new_models_nodes

                    new_models_sql, new_models_deferred_sql = \
                        sql_create_models(new_models,
                                          db_name=database_name,
                                          return_deferred=True)

                    batch_info.update({
                        'new_models_sql': new_models_sql,
                        'new_models_deferred_sql': new_models_deferred_sql,
                        'new_models_tasks': filter_dup_list_items(
                            node.state['task']
                            for node in new_models_nodes
                        ),
                    })

                # For each task introducing evolutions to apply, we need to
                # determine the pending mutations and resulting SQL for
                # applying those mutations. Since we have a whole batch that
                # we know we'll be applying at once, we can safely optimize
                # those at this stage.
                #
                # Note that we'll have one task per app to evolve.
                task_evolutions = batch_info.get('task_evolutions', {})

                for (batch_task,
                     batch_task_info) in six.iteritems(task_evolutions):
                    # This is going to look pretty similar to what's already
                    # been done in the prepare() stage, and it is. The
                    # difference is that we're now running operations on the
                    # batch's set of evolutions rather than the task's.
                    #
                    # There's not much we can do to share this logic between
                    # here and prepare().
                    if batch_task.app_sig_is_new:
                        # The app is being installed for the first time. Its
                        # models are created in their final form, and its
                        # whole evolution sequence is only being recorded.
                        # None of it must be executed.
                        continue

                    if batch_task._evolutions:
                        # Custom evolutions were passed to the task. Build the
                        # list of mutations for all evolutions in this task
                        # in the correct order.
                        mutations_map = {
                            _info['label']: _info['mutations']
                            for _info in batch_task._evolutions
                        }

                        pending_mutations = list(itertools.chain.from_iterable(
                            mutations_map[_label]
                            for _label in batch_task_info['evolutions']
                        ))
                    elif hinted:
                        # This is a hinted mutation, so grab the mutations
                        # hinted for this task's app.
                        pending_mutations = \
                            hinted_evolution.get(batch_task.app_label)
                    else:
                        # This is our standard case: An actual evolution from
                        # written evolution files. Generate the set of
                        # mutations to apply for all queued evolutions in
                        # this task.
                        pending_mutations = get_app_pending_mutations(
                            app=batch_task.app,
                            evolution_labels=batch_task_info['evolutions'],
                            old_project_sig=evolver.project_sig,
                            project_sig=evolver.target_project_sig,
                            database=database_name)

                    if pending_mutations:
                        # We have pending mutations for this task. Generate
                        # the final optimized SQL and list of mutations and
                        # store them for later execution.
                        #
                        # This will modify the signature in the Evolver.
                        mutations_info = batch_task.generate_mutations_info(
                            pending_mutations)

                        if mutations_info:
                            batch_task_info.update({
                                'mutations': mutations_info['mutations'],
                                'sql': mutations_info['sql'],
                            })

        return batches

    @classmethod
    def _create_models(cls, sql_executor, evolver, tasks, sql):
        """Create tables for models in the database.

        Args:
            sql_executor (django_evolution.utils.sql.SQLExecutor):
                The SQL executor used to run any SQL on the database.

            evolver (Evolver):
                The evolver executing the tasks.

            tasks (list of EvolveAppTask):
                The list of tasks containing models to create.

            sql (list):
                The list of SQL statements to execute.

        Returns:
            list:
            The list of SQL statements used to create the model. This is
            used primarily for unit tests.

        Raises:
            django_evolution.errors.EvolutionExecutionError:
                There was an unexpected error creating database models.
        """
        assert sql_executor
        assert tasks
        assert sql

        # We need to create all models at once, in order to allow Django to
        # handle deferring SQL statements referencing a model until after the
        # model has been created.
        #
        # Because of this, we also need to emit the creating_models and
        # created_models signals for every set of models up-front.
        for task in tasks:
            assert task

            creating_models.send(sender=evolver,
                                 app_label=task.app_label,
                                 model_names=task.new_model_names)

        try:
            result = sql_executor.run_sql(sql=sql,
                                          execute=True,
                                          capture=True)
        except Exception as e:
            last_sql_statement = getattr(e, 'last_sql_statement', None)
            detailed_error = six.text_type(e)

            if len(tasks) == 1:
                app_label = tasks[0].app_label

                raise EvolutionExecutionError(
                    _('Error creating database models for %s: %s')
                    % (app_label, e),
                    app_label=app_label,
                    detailed_error=detailed_error,
                    last_sql_statement=last_sql_statement)
            else:
                raise EvolutionExecutionError(
                    _('Error creating database models: %s') % e,
                    detailed_error=detailed_error,
                    last_sql_statement=last_sql_statement)

        for task in tasks:
            created_models.send(sender=evolver,
                                app_label=task.app_label,
                                model_names=task.new_model_names)

        return result

    @classmethod
    def _apply_deferred_sql(cls, sql_executor, evolver, sql):
        """Create tables for models in the database.

        Args:
            sql_executor (django_evolution.utils.sql.SQLExecutor):
                The SQL executor used to run any SQL on the database.

            evolver (Evolver):
                The evolver executing the tasks.

            sql (list):
                The list of SQL statements to execute.

        Returns:
            list:
            The list of SQL statements used to create the model. This is
            used primarily for unit tests.

        Raises:
            django_evolution.errors.EvolutionExecutionError:
                There was an unexpected error creating database models.
        """
        assert sql_executor
        assert sql

        try:
            return sql_executor.run_sql(sql=sql,
                                        execute=True,
                                        capture=True)
        except Exception as e:
            raise EvolutionExecutionError(
                _('Error applying deferred SQL for new database models: %s')
                % e,
                detailed_error=six.text_type(e),
                last_sql_statement=getattr(e, 'last_sql_statement', None))

    def __init__(self, evolver, app, evolutions=None, migrations=None):
        """Initialize the task.

        Args:
            evolver (Evolver):
                The evolver that will execute the task.

            app (module):
                The app module to evolve.

            evolutions (list of dict, optional):
                Optional evolutions to use for the app instead of loading
                from a file. This is intended for testing purposes.

                Each dictionary needs a ``label`` key for the evolution label
                and a ``mutations`` key for a list of
                :py:class:`~django_evolution.mutations.BaseMutation` instances.

            migrations (list of django.db.migrations.Migration, optional):
                Optional migrations to use for the app instead of loading from
                files. This is intended for testing purposes.
        """
        super(EvolveAppTask, self).__init__(
            task_id='evolve-app:%s' % app.__name__,
            evolver=evolver)

        self.app = app
        self.app_label = get_app_label(app)
        self.legacy_app_label = get_legacy_app_label(app)

        self.app_sig = None
        self.app_sig_is_new = False
        self.new_model_names = []
        self.new_models = []
        self.upgrade_method = None
        self.applied_migrations = None
        self.hinted_evolution = None

        self._new_models_sql = []
        self._new_models_deferred_sql = []
        self._evolutions = evolutions
        self._migrations = migrations
        self._mutations = None
        self._pending_mutations = None

    def generate_mutations_info(self, pending_mutations, update_evolver=True):
        """Generate information on a series of mutations.

        This will optimize and run the list of pending mutations against the
        evolver's stored signature and return the optimized list of mutations
        and SQL, along with some information on the app.

        The evolver's signature will be updated by default, but this can be
        disabled in order to just retrieve information without making any
        changes.

        Args:
            pending_mutations (list of
                               django_evolution.mutations.BaseMutation):
                The list of pending mutations to run.

            update_evolver (bool, optional):
                Whether to update the evolver's signature.

        Returns:
            dict:
            The resulting information from running the mutations. This
            includes the following:

            ``app_mutator`` (:py:class:`~django_evolution.mutations.AppMutator`):
                The app mutator that ran the mutations.

            ``applied_migrations`` (list of tuple):
                The list of migrations that were ultimately marked as applied.

            ``mutations`` (list of :py:class:`~django_evolution.mutations.BaseMutation`):
                The optimized list of mutations.

            ``sql`` (list):
                The optimized list of SQL statements to execute.

            ``upgrade_method`` (unicode):
                The resulting upgrade method for the app, after applying all
                mutations.

            If there are no mutations to run after optimization, this will
            return ``None``.
        """
        mutations = [
            mutation
            for mutation in pending_mutations
            if self.is_mutation_mutable(mutation,
                                        app_label=self.app_label)
        ]

        if not mutations:
            return None

        app_label = self.app_label
        legacy_app_label = self.legacy_app_label

        logger.debug('Mutations for %s: %r', app_label, mutations)

        app_mutator = AppMutator.from_evolver(
            evolver=self.evolver,
            app_label=app_label,
            legacy_app_label=legacy_app_label,
            update_evolver=update_evolver)
        app_mutator.run_mutations(mutations)

        project_sig = app_mutator.project_sig
        app_sig = (
            project_sig.get_app_sig(app_label) or
            project_sig.get_app_sig(legacy_app_label)
        )

        if app_sig is None:
            # The evolutions didn't make any changes to an existing app
            # signature. We may not have had an existing one. Bail.
            applied_migrations = []
            upgrade_method = None
        else:
            applied_migrations = app_sig.applied_migrations
            upgrade_method = app_sig.upgrade_method

        return {
            'app_mutator': app_mutator,
            'applied_migrations': applied_migrations,
            'mutations': mutations,
            'sql': app_mutator.to_sql(),
            'upgrade_method': upgrade_method,
        }

    def prepare(self, hinted=False, **kwargs):
        """Prepare state for this task.

        This will determine if there are any unapplied evolutions in the app,
        and record that state and the SQL needed to apply the evolutions.

        Args:
            hinted (bool, optional):
                Whether to prepare the task for hinted evolutions.

            **kwargs (dict, unused):
                Additional keyword arguments passed for task preparation.
        """
        app = self.app
        app_label = self.app_label
        evolver = self.evolver
        database_name = evolver.database_name
        project_sig = evolver.project_sig

        # Check if there are any models for this app that don't yet exist
        # in the database.
        new_models = db_get_installable_models_for_app(
            app=app,
            db_state=evolver.database_state)

        logger.debug('New models for %s: %r', app_label, new_models)

        self.new_models = new_models
        self.new_model_names = [
            model._meta.object_name
            for model in new_models
        ]

        # See if we're already tracking this app in the signature.
        app_sig = (project_sig.get_app_sig(app_label) or
                   project_sig.get_app_sig(self.legacy_app_label))
        app_sig_is_new = app_sig is None
        self.app_sig_is_new = app_sig_is_new

        orig_upgrade_method = None
        upgrade_method = None

        target_project_sig = evolver.target_project_sig
        target_app_sig = target_project_sig.get_app_sig(app_label,
                                                        required=True)
        evolutions = []

        if new_models:
            # Record what we know so far about the state. We might find that
            # we can't simulate once we process evolutions.
            self.can_simulate = True
            self.evolution_required = True

        if app_sig_is_new:
            # We're adding this app for the first time. If there are models
            # here, then copy the entire signature from the target, and mark
            # all evolutions for the app as applied.
            if new_models:
                app_sig = target_app_sig.clone()
                project_sig.add_app_sig(app_sig)
                orig_upgrade_method = app_sig.upgrade_method

            app_upgrade_info = get_app_upgrade_info(app,
                                                    simulate_applied=True,
                                                    database=database_name)
            upgrade_method = app_upgrade_info.get('upgrade_method')
            evolutions = get_evolution_sequence(app)

            if evolutions and evolver.database_state.has_model(Evolution):
                # The app may not be new to this database after all. If it
                # never has any models to install here (for instance, all
                # of its models are routed to another database), it never
                # gets an app signature, and would be seen as new every
                # time. Don't record its evolutions more than once.
                applied_evolutions = set(get_applied_evolutions(
                    app,
                    database=database_name))

                evolutions = [
                    label
                    for label in evolutions
                    if label not in applied_evolutions
                ]
        else:
            orig_upgrade_method = app_sig.upgrade_method

            # Copy only the models from the target signature that have
            # been created.
            for model in new_models:
                target_model_sig = target_app_sig.get_model_sig(
                    model._meta.object_name,
                    required=True)

                app_sig.add_model_sig(target_model_sig.clone())

            if app_sig.upgrade_method != UpgradeMethod.MIGRATIONS:
                # We're processing this as evolutions. Find out if we're
                # applying/generating selective evolutions, hinted evolutions,
                # or existing unapplied evolutions.
                if self._evolutions is not None:
                    evolutions = []
                    pending_mutations = []

                    for evolution in self._evolutions:
                        evolutions.append(evolution['label'])
                        pending_mutations += evolution['mutations']
                elif hinted:
                    evolutions = []
                    hinted_evolution = evolver.initial_diff.evolution()
                    pending_mutations = hinted_evolution.get(app_label,
                                                             [])

                    self.hinted_evolution = Evolution(app_label=app_label,
                                                      label='__hinted__')
                else:
                    evolutions = get_unapplied_evolutions(
                        app=app,
                        database=database_name)
                    pending_mutations = get_app_pending_mutations(
                        app=app,
                        evolution_labels=evolutions,
                        database=database_name)

                self._pending_mutations = pending_mutations

                mutations_info = self.generate_mutations_info(
                    pending_mutations,
                    update_evolver=False)

                if mutations_info:
                    app_mutator = mutations_info['app_mutator']
                    self.can_simulate = app_mutator.can_simulate
                    self.sql = mutations_info['sql']
                    self.evolution_required = True
                    self._mutations = mutations_info['mutations']

                    self.applied_migrations = MigrationList.from_names(
                        app_label,
                        mutations_info['applied_migrations'])
                    upgrade_method = mutations_info['upgrade_method']

        if new_models:
            # We're creating the models for the first time. We want to do this
            # in the most appropriate way. If we're working with a brand-new
            # app, which ultimately uses migrations, then we want to use
            # those migrations in order to build the models (so subsequent
            # migrations will apply on top of it cleanly).
            use_migrations = (
                supports_migrations and
                orig_upgrade_method == UpgradeMethod.MIGRATIONS)

            if use_migrations:
                logger.debug('Using migrations to create models for %s',
                             app_label)
            else:
                logger.debug('Using SQL to create models for %s',
                             app_label)

                # This is only going to be directly used if
                # execute(create_models_now=True) is called. Normally,
                # EvolveAppTask._new_models_sql will be used instead. We
                # don't know which way this will be called, so we need both.
                self._new_models_sql, self._new_models_deferred_sql = \
                    sql_create_models(new_models,
                                      db_name=database_name,
                                      return_deferred=True)

        self.upgrade_method = upgrade_method or orig_upgrade_method

        self.app_sig = app_sig
        self.new_evolutions = [
            Evolution(app_label=app_label,
                      label=label)
            for label in evolutions
        ]

    def execute(self, cursor=None, sql_executor=None, sql=None,
                evolutions=None, create_models_now=False):
        """Execute the task.

        This will apply any evolutions queued up for the app.

        Before the evolutions are applied for the app, the
        :py:data:`~django_evolution.signals.applying_evolution` signal will
        be emitted. After,
        :py:data:`~django_evolution.signals.applied_evolution` will be emitted.

        Version Changed:
            2.1:
            * Added ``sql`` and ``evolutions`` arguments.
            * Deprecated ``cursor`` in favor of ``sql_executor``.

        Args:
            cursor (django.db.backends.util.CursorWrapper, unused):
                The legacy database cursor. This is no longer used.

            sql_executor (django_evolution.utils.sql.SQLExecutor):
                The SQL executor used to run any SQL on the database.

            sql (list, optional):
                A list of explicit SQL statements to execute.

                This will override :py:attr:`sql` if provided.

            evolutions (list of django_evolution.models.Evolution, optional):
                A list of evolutions being applied. These will be sent in the
                :py:data:`~django_evolution.signals.applying_evolution` and
                :py:data:`~django_evolution.signals.applied_evolution` signals.

                This will override :py:attr:`new_evolutions` if provided.

            create_models_now (bool, optional):
                Whether to create models as part of this execution. Normally,
                this is handled in :py:meth:`execute_tasks`, but this flag
                allows for more fine-grained control of table creation in
                limited circumstances (intended only by :py:class:`Evolver`).

        Raises:
            django_evolution.errors.EvolutionExecutionError:
                The evolution task failed. Details are in the error.
        """
        assert sql_executor

        evolver = self.evolver

        if create_models_now and self._new_models_sql:
            EvolveAppTask._create_models(
                sql_executor=sql_executor,
                evolver=evolver,
                sql=self._new_models_sql,
                tasks=[self])

            if self._new_models_deferred_sql:
                EvolveAppTask._apply_deferred_sql(
                    sql_executor=sql_executor,
                    evolver=evolver,
                    sql=self._new_models_deferred_sql)

        if evolutions is None:
            evolutions = self.new_evolutions

        if sql is None:
            sql = self.sql

        if sql:
            applying_evolution.send(sender=evolver,
                                    task=self,
                                    evolutions=evolutions)

            try:
                sql_executor.run_sql(sql, execute=True)
            except Exception as e:
                raise EvolutionExecutionError(
                    _('Error applying evolution for %s: %s')
                    % (self.app_label, e),
                    app_label=self.app_label,
                    detailed_error=six.text_type(e),
                    last_sql_statement=getattr(e, 'last_sql_statement'))

            applied_evolution.send(sender=evolver,
                                   task=self,
                                   evolutions=evolutions)

    def get_evolution_content(self):
        """Return the content for an evolution file for this task.

        Returns:
            unicode:
            The evolution content.
        """
        if not self._mutations:
            return None

        imports = set()
        project_imports = set()
        mutation_types = set()
        mutation_lines = []

        app_prefix = self.app.__name__.split('.')[0]

        for mutation in self._mutations:
            mutation_types.add(type(mutation).__name__)
            mutation_line = '    %s,' % mutation
            mutation_lines.append(mutation_line)

            if 'models.' in mutation_line:
                # The hint references something in django.db.models (a
                # field type, Q, F, Index, constraint, ...), regardless of
                # the type of mutation.
                imports.add('from django.db import models')

            if isinstance(mutation, AddField):
                field_module = mutation.field_type.__module__

                if field_module.startswith('django.db.models'):
                    imports.add('from django.db import models')
                else:
                    import_str = ('from %s import %s' %
                                  (field_module, mutation.field_type.__name__))

                    if field_module.startswith(app_prefix):
                        project_imports.add(import_str)
                    else:
                        imports.add(import_str)

        imports.add('from django_evolution.mutations import %s'
                    % ', '.join(sorted(mutation_types)))

        lines = [
            'from __future__ import unicode_literals',
            '',
        ] + sorted(imports)

        lines.append('')

        if project_imports:
            lines += sorted(project_imports)
            lines.append('')

        lines += [
            '',
            'MUTATIONS = [',
        ] + mutation_lines + [
            ']',
        ]

        return '\n'.join(lines)

    def __str__(self):
        """Return a string description of the task.

        Returns:
            unicode:
            The string description.
        """
        return 'Evolve application "%s"' % self.app_label
