"""Base classes for evolver-related objects.

Version Added:
    2.2:
    This was previously located in :py:mod:`django_evolution.evolve`.
"""

from __future__ import unicode_literals


class BaseEvolutionTask(object):
    """Base class for a task to perform during evolution.

    Attributes:
        can_simulate (bool):
            Whether the task can be simulated without requiring additional
            information.

            This is set after calling :py:meth:`prepare`.

        evolution_required (bool):
            Whether an evolution is required by this task.

            This is set after calling :py:meth:`prepare`.

        evolver (Evolver):
            The evolver that will execute the task.

        id (unicode):
            The unique ID for the task.

        new_evolutions (list of django_evolution.models.Evolution):
            A list of evolution model entries this task would create.

            This is set after calling :py:meth:`prepare`.

        sql (list):
            A list of SQL statements to perform for the task. Each entry can
            be a string or tuple accepted by
            :py:meth:`~django_evolution.utils.sql.SQLExecutor.run_sql`.
    """

    @classmethod
    def prepare_tasks(cls, evolver, tasks, **kwargs):
        """Prepare a list of tasks.

        This is responsible for calling :py:meth:`prepare` on each of the
        provided tasks. It can augment this by calculating any other state
        needed in order to influence the tasks or react to them.

        If this applies state to the class, it should always be careful to
        completely reset the state on each run, in case there are multiple
        :py:class:`Evolver` instances at work within a process.

        Args:
            evolver (Evolver):
                The evolver that's handling the tasks.

            tasks (list of BaseEvolutionTask):
                The list of tasks to prepare. These will match the current
                class.

            **kwargs (dict):
                Keyword arguments to pass to the tasks' `:py:meth:`prepare`
                methods.
        """
        for task in tasks:
            task.prepare(**kwargs)

    @classmethod
    def execute_tasks(cls, evolver, tasks, **kwargs):
        """Execute a list of tasks.

        This is responsible for calling :py:meth:`execute` on each of the
        provided tasks. It can augment this by executing any steps before or
        after the tasks.

        If this applies state to the class, it should always be careful to
        completely reset the state on each run, in case there are multiple
        :py:class:`Evolver` instances at work within a process.

        This may depend on state from :py:meth:`prepare_tasks`.

        Args:
            evolver (Evolver):
                The evolver that's handling the tasks.

            tasks (list of BaseEvolutionTask):
                The list of tasks to execute. These will match the current
                class.

            **kwargs (dict):
                Keyword arguments to pass to the tasks' `:py:meth:`execute`
                methods.
        """
        with evolver.sql_executor(check_constraints=False) as sql_executor:
            for task in tasks:
                task.execute(sql_executor=sql_executor, **kwargs)

    def __init__(self, task_id, evolver):
        """Initialize the task.

        Args:
            task_id (unicode):
                The unique ID for the task.

            evolver (Evolver):
                The evolver that will execute the task.
        """
        self.id = task_id
        self.evolver = evolver

        self.can_simulate = False
        self.evolution_required = False
        self.new_evolutions = []
        self.sql = []

    def is_mutation_mutable(self, mutation, **kwargs):
        """Return whether a mutation is mutable.

        This is a handy wrapper around :py:meth:`BaseMutation.is_mutable
        <django_evolution.mutations.BaseMutation.is_mutable>` that passes
        standard arguments based on evolver state. Callers should pass any
        additional arguments that are required as keyword arguments.

        Args:
            mutation (django_evolution.mutations.BaseMutation):
                The mutation to check.

            **kwargs (dict):
                Additional keyword arguments to pass to
                :py:meth:`BaseMutation.is_mutable
                <django_evolution.mutations.BaseMutation.is_mutable>`.

        Returns:
            bool:
            ``True`` if the mutation is mutable. ``False`` if it is not.
        """
        evolver = self.evolver

        return mutation.is_mutable(project_sig=evolver.project_sig,
                                   database_state=evolver.database_state,
                                   database=evolver.database_name,
                                   **kwargs)

    def prepare(self, hinted, **kwargs):
        """Prepare state for this task.

        This is responsible for determining whether the task applies to the
        database. It must set :py:attr:`evolution_required`,
        :py:attr:`new_evolutions`, and :py:attr:`sql`.

        This must be called before :py:meth:`execute` or
        :py:meth:`get_evolution_content`.

        Args:
            hinted (bool):
                Whether to prepare the task for hinted evolutions.

            **kwargs (dict, unused):
                Additional keyword arguments passed for task preparation.
                This is provide for future expansion purposes.
        """
        raise NotImplementedError

    def execute(self, cursor=None, sql_executor=None, **kwargs):
        """Execute the task.

        This will make any changes necessary to the database.

        Version Changed:
            2.1:
            ``cursor`` is now deprecated in favor of ``sql_executor``.

        Args:
            cursor (django.db.backends.util.CursorWrapper, optional):
                The legacy database cursor used to execute queries.

            sql_executor (django_evolution.utils.sql.SQLExecutor, optional):
                The SQL executor used to run any SQL on the database.

            **kwargs (dict):
                Additional keyword arguments, for future expansion.

        Raises:
            django_evolution.errors.EvolutionExecutionError:
                The evolution task failed. Details are in the error.
        """
        raise NotImplementedError

    def get_evolution_content(self):
        """Return the content for an evolution file for this task.

        Returns:
            unicode:
            The evolution content.
        """
        raise NotImplementedError

    def __repr__(self):
        """Return a string representation of the task.

        Returns:
            unicode:
            The string representation.
        """
        return '<%s(id=%s)>' % (type(self).__name__, self.id)

    def __str__(self):
        """Return a string description of the task.

        Returns:
            unicode:
            The string description.
        """
        raise NotImplementedError
