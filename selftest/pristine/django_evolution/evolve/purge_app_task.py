"""Task for purging an application.

Version Added:
    2.2:
    This was previously located in :py:mod:`django_evolution.evolve`.
"""

from __future__ import unicode_literals

from django_evolution.compat import six
from django_evolution.compat.translation import gettext as _
from django_evolution.errors import EvolutionExecutionError
from django_evolution.evolve.base import BaseEvolutionTask
from django_evolution.mutations import DeleteApplication
from django_evolution.mutators import AppMutator


class PurgeAppTask(BaseEvolutionTask):
    """A task for purging an application's tables from the database.

    Attributes:
        app_label (unicode):
            The app label for the app to purge.
    """

    def __init__(self, evolver, app_label):
        """Initialize the task.

        Args:
            evolver (Evolver):
                The evolver that will execute the task.

            app_label (unicode):
                The app label for the app to purge.
        """
        super(PurgeAppTask, self).__init__(task_id='purge-app:%s' % app_label,
                                           evolver=evolver)

        self.app_label = app_label

    def prepare(self, **kwargs):
        """Prepare state for this task.

        This will determine if the app's tables need to be deleted from
        the database, and prepare the SQL for doing so.

        Args:
            **kwargs (dict, unused):
                Keyword arguments passed for task preparation.
        """
        evolver = self.evolver
        mutation = DeleteApplication()

        if self.is_mutation_mutable(mutation, app_label=self.app_label):
            app_mutator = AppMutator.from_evolver(
                evolver=evolver,
                app_label=self.app_label)
            app_mutator.run_mutation(mutation)

            self.evolution_required = True
            self.sql = app_mutator.to_sql()

            # DeleteApplication only removes the app's models from the
            # signature (the mutation is also used in evolutions for apps
            # that remain installed). A purged app is gone for good, so drop
            # its now-empty entry too. Otherwise it would be reported as a
            # deleted app on every subsequent run.
            project_sig = evolver.project_sig
            app_sig = project_sig.get_app_sig(self.app_label)

            if app_sig is not None and app_sig.is_empty():
                project_sig.remove_app_sig(app_sig.app_id)

        self.can_simulate = True
        self.new_evolutions = []

    def execute(self, cursor=None, sql_executor=None, **kwargs):
        """Execute the task.

        This will delete any tables owned by the application.

        Args:
            cursor (django.db.backends.util.CursorWrapper, unused):
                The legacy database cursor. This is no longer used.

            sql_executor (django_evolution.utils.sql.SQLExecutor, optional):
                The SQL executor used to run any SQL on the database.

        Raises:
            django_evolution.errors.EvolutionExecutionError:
                The evolution task failed. Details are in the error.
        """
        assert sql_executor

        if self.evolution_required:
            try:
                sql_executor.run_sql(self.sql, execute=True)
            except Exception as e:
                raise EvolutionExecutionError(
                    _('Error purging app "%s": %s')
                    % (self.app_label, e),
                    app_label=self.app_label,
                    detailed_error=six.text_type(e),
                    last_sql_statement=getattr(e, 'last_sql_statement'))

    def __str__(self):
        """Return a string description of the task.

        Returns:
            unicode:
            The string description.
        """
        return 'Purge application "%s"' % self.app_label
