"""Main Evolver interface for performing evolutions and migrations.

Version Added:
    2.2:
    This was previously located in :py:mod:`django_evolution.evolve`.
"""

from __future__ import unicode_literals

from collections import OrderedDict
from contextlib import contextmanager

from django.db import connections
from django.db.utils import DEFAULT_DB_ALIAS

from django_evolution.compat import six
from django_evolution.compat.apps import get_app, get_apps
from django_evolution.compat.db import atomic
from django_evolution.compat.translation import gettext as _
from django_evolution.db.state import DatabaseState
from django_evolution.diff import Diff
from django_evolution.errors import (EvolutionException,
                                     EvolutionTaskAlreadyQueuedError,
                                     EvolutionExecutionError,
                                     QueueEvolverTaskError)
from django_evolution.evolve.evolve_app_task import EvolveAppTask
from django_evolution.evolve.purge_app_task import PurgeAppTask
from django_evolution.models import Evolution, Version
from django_evolution.signals import evolved, evolving, evolving_failed
from django_evolution.signature import AppSignature, ProjectSignature
from django_evolution.utils.apps import get_app_label
from django_evolution.utils.sql import SQLExecutor


class Evolver(object):
    """The main class for managing database evolutions.

    The evolver is used to queue up tasks that modify the database. These
    allow for evolving database models and purging applications across an
    entire Django project or only for specific applications. Custom tasks
    can even be written by an application if very specific database
    operations need to be made outside of what's available in an evolution.

    Tasks are executed in order, but batched by the task type. That is, if
    two instances of ``TaskType1`` are queued, followed by an instance of
    ``TaskType2``, and another of ``TaskType1``, all 3 tasks of ``TaskType1``
    will be executed at once, with the ``TaskType2`` task following.

    Callers are expected to create an instance and queue up one or more tasks.
    Once all tasks are queued, the changes can be made using :py:meth:`evolve`.
    Alternatively, evolution hints can be generated using
    :py:meth:`generate_hints`.

    Projects will generally utilize this through the existing ``evolve``
    Django management command.

    Attributes:
        connection (django.db.backends.base.base.BaseDatabaseWrapper):
            The database connection object being used for the evolver.

        database_name (unicode):
            The name of the database being evolved.

        database_state (django_evolution.db.state.DatabaseState):
            The state of the database, for evolution purposes.

        evolved (bool):
            Whether the evolver has already performed its evolutions. These
            can only be done once per evolver.

        hinted (bool):
            Whether the evolver is operating against hinted evolutions. This
            may result in changes to the database without there being any
            accompanying evolution files backing those changes.

        interactive (bool):
            Whether the evolution operations are being performed in a
            way that allows interactivity on the command line. This is
            passed along to signal emissions.

        initial_diff (django_evolution.diff.Diff):
            The initial diff between the stored project signature and the
            current project signature.

        project_sig (django_evolution.signature.ProjectSignature):
            The project signature. This will start off as the previous
            signature stored in the database, but will be modified when
            mutations are simulated.

        verbosity (int):
            The verbosity level for any output. This is passed along to
            signal emissions.

        version (django_evolution.models.Version):
            The project version entry saved as the result of any evolution
            operations. This contains the current version of the project
            signature. It may be ``None`` until :py:meth:`evolve` is called.
    """

    def __init__(self, hinted=False, verbosity=0, interactive=False,
                 database_name=DEFAULT_DB_ALIAS):
        """Initialize the evolver.

        Args:
            hinted (bool, optional):
                Whether to operate against hinted evolutions. This may
                result in changes to the database without there being any
                accompanying evolution files backing those changes.

            verbosity (int, optional):
                The verbosity level for any output. This is passed along to
                signal emissions.

            interactive (bool, optional):
                Whether the evolution operations are being performed in a
                way that allows interactivity on the command line. This is
                passed along to signal emissions.

            database_name (unicode, optional):
                The name of the database to evolve.

        Raises:
            django_evolution.errors.EvolutionBaselineMissingError:
                An initial baseline for the project was not yet installed.
                This is due to ``syncdb``/``migrate`` not having been run.
        """
        self.database_name = database_name
        self.hinted = hinted
        self.verbosity = verbosity
        self.interactive = interactive

        self.evolved = False
        self.initial_diff = None
        self.project_sig = None
        self.version = None
        self.installed_new_database = False

        self.connection = connections[database_name]

        if hasattr(self.connection, 'prepare_database'):
            # Django >= 1.8
            self.connection.prepare_database()

        self.database_state = DatabaseState(self.database_name)
        self.target_project_sig = \
            ProjectSignature.from_database(database_name)

        self._tasks_by_class = OrderedDict()
        self._tasks_by_id = OrderedDict()
        self._tasks_prepared = False

        latest_version = None

        if self.database_state.has_model(Version):
            try:
                latest_version = \
                    Version.objects.current_version(using=database_name)
            except Version.DoesNotExist:
                # We'll populate this next.
                pass

        if latest_version is None:
            # Either the models aren't yet synced to the database, or we
            # don't have a saved project signature, so let's set these up.
            self.installed_new_database = True

            self.project_sig = ProjectSignature()
            app = get_app('django_evolution')

            task = EvolveAppTask(evolver=self,
                                 app=app)
            task.prepare(hinted=False)

            with self.sql_executor() as sql_executor:
                task.execute(sql_executor=sql_executor,
                             create_models_now=True)

            self.database_state.rescan_tables()

            app_sig = AppSignature.from_app(app=app,
                                            database=database_name)
            self.project_sig.add_app_sig(app_sig)

            # Let's make completely sure that we've only found the models
            # we expect. This is mostly for the benefit of unit tests.
            model_names = set(
                model_sig.model_name
                for model_sig in app_sig.model_sigs
            )
            expected_model_names = set(['Evolution', 'Version'])

            assert model_names == expected_model_names, (
                'Unexpected models found for django_evolution app: %s'
                % ', '.join(model_names - expected_model_names))

            self._save_project_sig(new_evolutions=task.new_evolutions)
            latest_version = self.version

        self.project_sig = latest_version.signature
        self.initial_diff = Diff(self.project_sig,
                                 self.target_project_sig)

    @property
    def tasks(self):
        """A list of all tasks that will be performed.

        This can only be accessed after all necessary tasks have been queued.
        """
        # If a caller is interested in the list of tasks, then it's likely
        # interested in state on those tasks. That means we'll need to prepare
        # all the tasks before we can return any of them.
        self._prepare_tasks()

        return six.itervalues(self._tasks_by_id)

    def can_simulate(self):
        """Return whether all queued tasks can be simulated.

        If any tasks cannot be simulated (for instance, a hinted evolution
        requiring manually-entered values), then this will return ``False``.

        This can only be called after all tasks have been queued.

        Returns:
            bool:
            ``True`` if all queued tasks can be simulated. ``False`` if any
            cannot.
        """
        return all(
            task.can_simulate or not task.evolution_required
            for task in self.tasks
        )

    def get_evolution_required(self):
        """Return whether there are any evolutions required.

        This can only be called after all tasks have been queued.

        Returns:
            bool:
            ``True`` if any tasks require evolution. ``False`` if none do.
        """
        return any(
            task.evolution_required
            for task in self.tasks
        )

    def diff_evolutions(self):
        """Return a diff between stored and post-evolution project signatures.

        This will run through all queued tasks, preparing them and simulating
        their changes. The returned diff will represent the changes made in
        those tasks.

        This can only be called after all tasks have been queued.

        Returns:
            django_evolution.diff.Diff:
            The diff between the stored signature and the queued changes.
        """
        self._prepare_tasks()

        return Diff(self.project_sig, self.target_project_sig)

    def iter_evolution_content(self):
        """Generate the evolution content for all queued tasks.

        This will loop through each tasks and yield any evolution content
        provided.

        This can only be called after all tasks have been queued.

        Yields:
            tuple:
            A tuple of ``(task, evolution_content)``.
        """
        for task in self.tasks:
            content = task.get_evolution_content()

            if content:
                yield task, content

    def queue_evolve_all_apps(self):
        """Queue an evolution of all registered Django apps.

        This cannot be used if :py:meth:`queue_evolve_app` is also being used.

        Raises:
            django_evolution.errors.EvolutionTaskAlreadyQueuedError:
                An evolution for an app was already queued.

            django_evolution.errors.QueueEvolverTaskError:
                Error queueing a non-duplicate task. Tasks may have already
                been prepared and finalized.
        """
        for app in get_apps():
            self.queue_evolve_app(app)

    def queue_evolve_app(self, app):
        """Queue an evolution of a registered Django app.

        Args:
            app (module):
                The Django app to queue an evolution for.

        Raises:
            django_evolution.errors.EvolutionTaskAlreadyQueuedError:
                An evolution for this app was already queued.

            django_evolution.errors.QueueEvolverTaskError:
                Error queueing a non-duplicate task. Tasks may have already
                been prepared and finalized.
        """
        try:
            self.queue_task(EvolveAppTask(self, app))
        except EvolutionTaskAlreadyQueuedError:
            raise EvolutionTaskAlreadyQueuedError(
                _('"%s" is already being tracked for evolution')
                % get_app_label(app))

    def queue_purge_old_apps(self):
        """Queue the purging of all old, stale Django apps.

        This will purge any apps that exist in the stored project signature
        but that are no longer registered in Django.

        This generally should not be used if :py:meth:`queue_purge_app` is also
        being used.

        Raises:
            django_evolution.errors.EvolutionTaskAlreadyQueuedError:
                A purge of an app was already queued.

            django_evolution.errors.QueueEvolverTaskError:
                Error queueing a non-duplicate task. Tasks may have already
                been prepared and finalized.
        """
        for app_label in self.initial_diff.deleted:
            self.queue_purge_app(app_label)

    def queue_purge_app(self, app_label):
        """Queue the purging of a Django app.

        Args:
            app_label (unicode):
                The label of the app to purge.

        Raises:
            django_evolution.errors.EvolutionTaskAlreadyQueuedError:
                A purge of this app was already queued.

            django_evolution.errors.QueueEvolverTaskError:
                Error queueing a non-duplicate task. Tasks may have already
                been prepared and finalized.
        """
        try:
            self.queue_task(PurgeAppTask(evolver=self,
                                         app_label=app_label))
        except EvolutionTaskAlreadyQueuedError:
            raise EvolutionTaskAlreadyQueuedError(
                _('"%s" is already being tracked for purging')
                % app_label)

    def queue_task(self, task):
        """Queue a task to run during evolution.

        This should only be directly called if working with custom tasks.
        Otherwise, use a more specific queue method.

        Args:
            task (BaseEvolutionTask):
                The task to queue.

        Raises:
            django_evolution.errors.EvolutionTaskAlreadyQueuedError:
                A purge of this app was already queued.

            django_evolution.errors.QueueEvolverTaskError:
                Error queueing a non-duplicate task. Tasks may have already
                been prepared and finalized.

        """
        assert task.id

        if self._tasks_prepared:
            raise QueueEvolverTaskError(
                _('Evolution tasks have already been prepared. New tasks '
                  'cannot be added.'))

        if task.id in self._tasks_by_id:
            raise EvolutionTaskAlreadyQueuedError(
                _('A task with ID "%s" is already queued.')
                % task.id)

        self._tasks_by_id[task.id] = task
        self._tasks_by_class.setdefault(type(task), []).append(task)

    def evolve(self):
        """Perform the evolution.

        This will run through all queued tasks and attempt to apply them in
        a database transaction, tracking each new batch of evolutions as the
        tasks finish.

        This can only be called once per evolver instance.

        Raises:
            django_evolution.errors.EvolutionException:
                Something went wrong during the evolution process. Details
                are in the error message. Note that a more specific exception
                may be raised.

            django_evolution.errors.EvolutionExecutionError:
                A specific evolution task failed. Details are in the error.
        """
        if self.evolved:
            raise EvolutionException(
                _('Evolver.evolve() has already been run once. It cannot be '
                  'run again.'))

        self._prepare_tasks()

        evolving.send(sender=self)

        try:
            new_evolutions = []

            for task_cls, tasks in six.iteritems(self._tasks_by_class):
                # Perform the evolution for the app. This is responsible
                # for raising any exceptions.
                task_cls.execute_tasks(evolver=self,
                                       tasks=tasks)

                for task in tasks:
                    new_evolutions += task.new_evolutions

                # Things may have changed, so rescan the database.
                self.database_state.rescan_tables()

            self._save_project_sig(new_evolutions=new_evolutions)
            self.evolved = True
        except Exception as e:
            evolving_failed.send(sender=self,
                                 exception=e)
            raise

        evolved.send(sender=self)

    def _prepare_tasks(self):
        """Prepare all queued tasks for further operations.

        Once prepared, no new tasks can be added. This will be done before
        performing any operations requiring state from queued tasks.
        """
        if not self._tasks_prepared:
            self._tasks_prepared = True

            for task_cls, tasks in six.iteritems(self._tasks_by_class):
                task_cls.prepare_tasks(evolver=self,
                                       tasks=tasks,
                                       hinted=self.hinted)

    def sql_executor(self, **kwargs):
        """Return an SQLExecutor for executing SQL.

        This is a convenience method for creating an
        :py:class:`~django_evolution.utils.sql.SQLExecutor` to operate using
        the evolver's current database.

        Version Added:
            2.1

        Args:
            **kwargs (dict):
                Additional keyword arguments used to construct the executor.

        Returns:
            django_evolution.utils.sql.SQLExecutor:
            The new SQLExecutor.
        """
        return SQLExecutor(database=self.database_name, **kwargs)

    @contextmanager
    def transaction(self):
        """Execute database operations in a transaction.

        This is a convenience method for executing in a transaction using
        the evolver's current database.

        Deprecated:
            2.1:
            This has been replaced with manual calls to
            :py:class:`~django_evolution.utils.sql.SQLExecutor`.

        Context:
            django.db.backends.util.CursorWrapper:
            The cursor used to execute statements.
        """
        with atomic(using=self.database_name):
            cursor = self.connection.cursor()

            try:
                yield cursor
            finally:
                cursor.close()

    def _save_project_sig(self, new_evolutions):
        """Save the project signature and any new evolutions.

        This will serialize the current modified project signature to the
        database and write any new evolutions, attaching them to the current
        project version.

        This can be called many times for one evolver instance. After the
        first time, the version already saved will simply be updated.

        Args:
            new_evolutions (list of django_evolution.models.Evolution):
                The list of new evolutions to save to the database.

        Raises:
            django_evolution.errors.EvolutionExecutionError:
                There was an error saving to the database.
        """
        version = self.version

        if version is None:
            version = Version(signature=self.project_sig)
            self.version = version

        try:
            version.save(using=self.database_name)

            if new_evolutions:
                for evolution in new_evolutions:
                    evolution.version = version

                Evolution.objects.using(self.database_name).bulk_create(
                    new_evolutions)
        except Exception as e:
            raise EvolutionExecutionError(
                _('Error saving new evolution version information: %s')
                % e,
                detailed_error=six.text_type(e))
