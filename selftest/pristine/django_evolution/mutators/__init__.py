"""Mutators responsible for applying mutations.

Version Changed:
    2.2:
    The classes have all been moved to nested modules. This module will
    provide forwarding imports, and will continue to be the primary place to
    import these mutations.

.. autosummary::
   :nosignatures:

   ~django_evolution.mutators.app_mutator.AppMutator
   ~django_evolution.mutators.model_mutator.ModelMutator
   ~django_evolution.mutators.sql_mutator.SQLMutator
"""

from __future__ import unicode_literals


from django_evolution.mutators.app_mutator import AppMutator
from django_evolution.mutators.model_mutator import ModelMutator
from django_evolution.mutators.sql_mutator import SQLMutator


__all__ = [
    'AppMutator',
    'ModelMutator',
    'SQLMutator',
]

__autodoc_excludes__ = __all__
