"""Mutator that applies changes to a model.

Version Added:
    2.2
"""

from __future__ import unicode_literals

import logging

from django_evolution.db import EvolutionOperationsMulti
from django_evolution.errors import (CannotSimulate,
                                     EvolutionBaselineMissingError)
from django_evolution.mock_models import MockModel
from django_evolution.mutations import BaseModelMutation
from django_evolution.mutators.base import BaseAppStateMutator
from django_evolution.utils.models import get_database_for_model_name


logger = logging.getLogger(__name__)


class ModelMutator(BaseAppStateMutator):
    """Tracks and runs mutations for a model.

    A ModelMutator is bound to a particular model (by type, not instance) and
    handles operations that apply to that model.

    Operations are first registered by mutations, and then later provided to
    the database's operations backend, where they will be applied to the
    database.

    After all operations are added, the caller is expected to call to_sql()
    to get the SQL statements needed to apply those operations. Once called,
    the mutator is finalized, and new operations cannot be added.

    ModelMutator only works with mutations that are instances of
    BaseModelFieldMutation.

    This is instantiated by :py:class:`~django_evolution.mutators.app_mutator.
    AppMutator`, and should not be created manually.

    Version Changed:
        2.2:
        Moved into the :py:mod:`django_evolution.mutators.model_mutator`
        module.
    """

    def __init__(self, app_mutator, model_name):
        """Initialize the mutator.

        Args:
            app_mutator (AppMutator):
                The app mutator that owns this model mutator.

            model_name (unicode):
                The name of the model being evolved.

            app_label (unicode):
                The label of the app to evolve.

            legacy_app_label (unicode):
                The legacy label of the app to evolve. This is based on the
                module name and is used in the transitioning of pre-Django 1.7
                signatures.

            project_sig (django_evolution.signature.ProjectSignature):
                The project signature being evolved.

            database_state (django_evolution.db.state.DatabaseState):
                The database state information to manipulate.

            database (unicode, optional):
                The name of the database being evolved.
        """
        super(ModelMutator, self).__init__(app_mutator=app_mutator)

        if not self.database:
            self.database = get_database_for_model_name(self.app_label,
                                                        model_name)
            assert self.database

        self.model_name = model_name
        self._ops = []

        evolution_ops = EvolutionOperationsMulti(self.database,
                                                 self.database_state)
        self.evolver = evolution_ops.get_evolver()

    @property
    def model_sig(self):
        """The model signature that this mutator is working with.

        Type:
            django_evolution.signature.ModelSignature

        Raises:
            django_evolution.errors.EvolutionBaselineMissingError:
                The model signature or parent app signature could not be found.
        """
        app_label = self.app_label
        app_sig = self.project_sig.get_app_sig(app_label)

        if app_sig is None:
            if (self.legacy_app_label is not None and
                self.legacy_app_label != app_label):
                # Check if it can be found by the legacy label.
                app_sig = self.project_sig.get_app_sig(self.legacy_app_label)

            if app_sig is None:
                raise EvolutionBaselineMissingError(
                    'The app signature for "%s" could not be found.'
                    % app_label)

        model_sig = app_sig.get_model_sig(self.model_name)

        if model_sig is None:
            raise EvolutionBaselineMissingError(
                'The model signature for "%s.%s" could not be found.'
                % (app_label, self.model_name))

        return model_sig

    def create_model(self):
        """Create a mock model instance with the stored information.

        This is typically used when calling a mutation's mutate() function
        and passing a model instance, but can also be called whenever
        a new instance of the model is needed for any lookups.

        Returns:
            django_evolution.mock_models.MockModel:
            The resulting mock model.

        Raises:
            django_evolution.errors.EvolutionBaselineMissingError:
                The model signature or parent app signature could not be found.
        """
        return MockModel(project_sig=self.project_sig,
                         app_name=self.app_label,
                         model_name=self.model_name,
                         model_sig=self.model_sig,
                         db_name=self.database)

    def add_column(self, mutation, field, initial):
        """Adds a pending Add Column operation.

        This will cause to_sql() to include SQL for adding the column
        with the given information to the model.
        """
        assert not self.finalized

        self._ops.append({
            'type': 'add_column',
            'mutation': mutation,
            'field': field,
            'initial': initial,
        })

    def change_column_type(self, mutation, old_field, new_field, new_attrs):
        """Add a pending Change Column Type operation.

        This will cause :py:meth:`to_sql` to include SQL for changing a field
        to a new type.

        Args:
            mutation (django_evolution.mutations.ChangeField):
                The mutation that triggered this column type change.

            old_field (django.db.models.Field):
                The old field on the model.

            new_field (django.db.models.Field):
                The new field on the model.

            new_attrs (dict):
                New attributes set in the
                :py:class:`~django_evolution.mutations.change_field.
                ChangeField`.
        """
        assert not self.finalized

        self._ops.append({
            'type': 'change_column_type',
            'mutation': mutation,
            'old_field': old_field,
            'new_field': new_field,
            'new_attrs': new_attrs,
        })

    def change_column(self, mutation, field, new_attrs):
        """Adds a pending Change Column operation.

        This will cause to_sql() to include SQL for changing one or more
        attributes for the given column.
        """
        assert not self.finalized

        self._ops.append({
            'type': 'change_column',
            'mutation': mutation,
            'field': field,
            'new_attrs': new_attrs,
        })

    def delete_column(self, mutation, field):
        """Adds a pending Delete Column operation.

        This will cause to_sql() to include SQL for deleting the given
        column.
        """
        assert not self.finalized

        self._ops.append({
            'type': 'delete_column',
            'mutation': mutation,
            'field': field,
        })

    def delete_model(self, mutation):
        """Adds a pending Delete Model operation.

        This will cause to_sql() to include SQL for deleting the model.
        """
        assert not self.finalized

        self._ops.append({
            'type': 'delete_model',
            'mutation': mutation,
        })

    def change_meta(self, mutation, prop_name, new_value):
        """Adds a pending Change Meta operation.

        This will cause to_sql() to include SQL for changing a supported
        attribute in the model's Meta class.
        """
        assert not self.finalized

        if prop_name in ('index_together', 'unique_together'):
            old_value = getattr(self.model_sig, prop_name)
        elif prop_name == 'constraints':
            # Django >= 2.2
            old_value = [
                dict({
                    'name': constraint_sig.name,
                    'type': constraint_sig.type,
                }, **constraint_sig.attrs)
                for constraint_sig in self.model_sig.constraint_sigs
            ]
        elif prop_name == 'db_table_comment':
            # Django >= 4.2
            old_value = self.model_sig.db_table_comment
        elif prop_name == 'indexes':
            # Django >= 1.11
            old_value = []

            for index_sig in self.model_sig.index_sigs:
                index_value = index_sig.attrs.copy()

                if index_sig.expressions:
                    index_value['expressions'] = index_sig.expressions

                if index_sig.fields:
                    index_value['fields'] = index_sig.fields

                if index_sig.name:
                    index_value['name'] = index_sig.name

                old_value.append(index_value)
        else:
            raise ValueError('Cannot change meta property "%s"' % prop_name)

        self._ops.append({
            'type': 'change_meta',
            'mutation': mutation,
            'prop_name': prop_name,
            'old_value': old_value,
            'new_value': new_value,
        })

    def add_sql(self, mutation, sql, mergeable=False):
        """Adds an operation for executing custom SQL.

        This will cause to_sql() to include the provided SQL statements.
        The SQL should be a list of a statements.

        If ``mergeable`` is set, the SQL is known not to touch the model's
        own table (for instance, creating or dropping the table for a
        ManyToManyField), and the operation won't prevent the operations
        around it from being merged into one ALTER TABLE/table rebuild.
        """
        assert not self.finalized

        self._ops.append({
            'type': 'sql',
            'mutation': mutation,
            'sql': sql,
            'mergeable': mergeable,
        })

    def run_mutation(self, mutation):
        """Run the specified mutation.

        The mutation will be provided with a temporary mock instance of a
        model that can be used for field or meta lookups.

        The mutator must be finalized before this can be called.

        Once the mutation has been run, it will call :py:meth:`run_simulation`,
        applying changes to the database project signature.

        Args:
            mutation (django_evolution.mutations.BaseModelMutation):
                The mutation to run.

        Raises:
            django_evolution.errors.EvolutionBaselineMissingError:
                The model signature or parent app signature could not be found.
        """
        assert isinstance(mutation, BaseModelMutation)

        logger.debug('Running mutation for %s.%s: %r',
                     self.app_label, self.model_name, mutation)

        super(ModelMutator, self).run_mutation(
            mutation=mutation,
            mutate_kwargs={
                'model': self.create_model(),
            })

    def to_sql(self):
        """Returns SQL for the operations added to this mutator.

        The SQL will represent all the operations made by the mutator,
        as determined by the database operations backend.

        Once called, no new operations can be added to the mutator.
        """
        assert not self.finalized

        self.finalize()

        return self.evolver.generate_table_ops_sql(self, self._ops)

    def finish_op(self, op):
        """Finishes handling an operation.

        This is called by the evolution operations backend when it is done
        with an operation.

        Simulations for the operation's associated mutation will be applied,
        in order to update the signatures for the changes made by the
        mutation.

        Args:
            op (dict):
                The operation that has finished.
        """
        self.run_simulation(op['mutation'])
