"""Mutator that applies changes to an app.

Version Added:
    2.2
"""

from __future__ import unicode_literals

import copy
import logging

from django_evolution.errors import CannotSimulate
from django_evolution.mutations import (AddField,
                                        BaseModelMutation,
                                        BaseUpgradeMethodMutation,
                                        ChangeField,
                                        ChangeMeta,
                                        DeleteField,
                                        DeleteModel,
                                        RenameAppLabel,
                                        RenameField,
                                        RenameModel)
from django_evolution.mutators.base import BaseMutator
from django_evolution.mutators.model_mutator import ModelMutator
from django_evolution.mutators.sql_mutator import SQLMutator
from django_evolution.mutators.upgrade_method_mutator import \
    UpgradeMethodMutator


class AppMutator(BaseMutator):
    """Tracks and runs mutations for an app.

    An AppMutator is bound to a particular app name, and handles operations
    that apply to anything on that app.

    This will create a ModelMutator internally for each set of adjacent
    operations that apply to the same model, allowing the database operations
    backend to optimize those operations. This means that it's in the best
    interest of a developer to keep related mutations batched together as much
    as possible.

    After all operations are added, the caller is expected to call to_sql()
    to get the SQL statements needed to apply those operations. Once called,
    the mutator is finalized, and new operations cannot be added.

    Version Changed:
        2.2:
        Moved into the :py:mod:`django_evolution.mutators.app_mutator` module.
    """

    @classmethod
    def from_evolver(cls, evolver, app_label, legacy_app_label=None,
                     update_evolver=True):
        """Create an AppMutator based on the state from an Evolver.

        Args:
            evolver (django_evolution.evolve.Evolver):
                The Evolver containing the state for the app mutator.

            app_label (unicode):
                The label of the app to evolve.

            legacy_app_label (unicode, optional):
                The legacy label of the app to evolve. This is based on the
                module name and is used in the transitioning of pre-Django 1.7
                signatures.

        Returns:
            AppMutator:
            The new app mutator.
        """
        project_sig = evolver.project_sig
        database_state = evolver.database_state

        if not update_evolver:
            project_sig = project_sig.clone()
            database_state = database_state.clone()

        return cls(app_label=app_label,
                   legacy_app_label=legacy_app_label,
                   project_sig=project_sig,
                   database_state=database_state,
                   database=evolver.database_name)

    def __init__(self, app_label, project_sig, database_state,
                 legacy_app_label=None, database=None):
        """Initialize the mutator.

        Args:
            app_label (unicode):
                The label of the app to evolve.

            project_sig (django_evolution.signature.ProjectSignature):
                The project signature being evolved.

            database_state (django_evolution.db.state.DatabaseState):
                The database state information to manipulate.

            legacy_app_label (unicode, optional):
                The legacy label of the app to evolve. This is based on the
                module name and is used in the transitioning of pre-Django 1.7
                signatures.

            database (unicode, optional):
                The name of the database being evolved.
        """
        super(AppMutator, self).__init__()

        self.app_label = app_label
        self.legacy_app_label = legacy_app_label or app_label
        self.project_sig = project_sig
        self.database_state = database_state
        self.database = database
        self._last_model_mutator = None
        self._mutators = []
        self._orig_project_sig = copy.deepcopy(self.project_sig)
        self._orig_database_state = self.database_state.clone()

    def run_mutation(self, mutation):
        """Runs a mutation that applies to this app.

        If the mutation applies to a model, a ModelMutator for that model
        will be given the job of running this mutation. If the prior operation
        operated on the same model, then the previously created ModelMutator
        will be used. Otherwise, a new one will be created.
        """
        mutator = None

        if isinstance(mutation, BaseModelMutation):
            if (self._last_model_mutator and
                mutation.model_name == self._last_model_mutator.model_name):
                # We can continue to apply operations to the previous
                # ModelMutator.
                mutator = self._last_model_mutator
            else:
                # This is a new model. Begin a new ModelMutator for it.
                self._finalize_model_mutator()

                mutator = ModelMutator(app_mutator=self,
                                       model_name=mutation.model_name)
                self._last_model_mutator = mutator
        else:
            # This is something other than a model mutation, so finalize any
            # mutations we may have been batching together on a ModelMutator.
            self._finalize_model_mutator()

            if isinstance(mutation, BaseUpgradeMethodMutation):
                mutator = UpgradeMethodMutator(app_mutator=self,
                                               mutation=mutation)
                self._mutators.append(mutator)

        # We'll now want to perform a mutate + simulate on this mutation.
        if mutator is None:
            mutation.mutate(self)

            try:
                mutation.run_simulation(
                    app_label=self.app_label,
                    legacy_app_label=self.legacy_app_label,
                    project_sig=self.project_sig,
                    database_state=self.database_state,
                    database=self.database)
            except CannotSimulate:
                self.can_simulate = False
        else:
            mutator.run_mutation(mutation)

    def run_mutations(self, mutations):
        """Runs a list of mutations."""
        mutations = self._preprocess_mutations(mutations)

        for mutation in mutations:
            self.run_mutation(mutation)

    def add_sql(self, mutation, sql):
        """Adds SQL that applies to the application."""
        assert not self._last_model_mutator

        self._mutators.append(SQLMutator(mutation, sql))

    def to_sql(self):
        """Return SQL for the operations added to this mutator.

        The SQL will represent all the operations made by the mutator.
        Once called, no new operations can be added.

        Returns:
            list:
            The list of SQL statements.

            Each item may be one of the following:

            1. A Unicode string representing an SQL statement
            2. A tuple in the form of ``(sql_statement, sql_params)``
            3. An instance of :py:class:`django_evolution.db.sql_result.
               SQLResult`.
        """
        assert not self.finalized

        # Finalize one last time.
        self._finalize_model_mutator()

        self.project_sig = self._orig_project_sig
        self.database_state = self._orig_database_state

        sql = []

        for mutator in self._mutators:
            sql.extend(mutator.to_sql())

            if isinstance(mutator, SQLMutator):
                # The signature and database state were reset above, and the
                # model mutators re-simulate their mutations against them as
                # they generate SQL. A mutation that only contributed SQL
                # needs to be re-simulated here as well, or the mutators that
                # follow would generate SQL (such as a table rebuild) from a
                # signature that's missing its changes.
                try:
                    mutator.mutation.run_simulation(
                        app_label=self.app_label,
                        legacy_app_label=self.legacy_app_label,
                        project_sig=self.project_sig,
                        database_state=self.database_state,
                        database=self.database)
                except CannotSimulate:
                    self.can_simulate = False

        self.finalize()

        return sql

    def _finalize_model_mutator(self):
        """Finalizes the current ModelMutator, if one exists.

        The ModelMutator's SQL will be generated and added to the resulting
        SQL for this AppMutator.
        """
        if self._last_model_mutator:
            if not self._last_model_mutator.can_simulate:
                self.can_simulate = False

            self._mutators.append(self._last_model_mutator)
            self._last_model_mutator = None

    def _preprocess_mutations(self, mutations):
        """Pre-processes a list of mutations to filter out unnecessary changes.

        This attempts to take a set of mutations and figure out which ones
        are actually necessary to create the resulting signature.

        It does this by figuring out batches of mutations it can process in
        one go (basically, adjacent AddFields, DeleteFields, RenameFields, and
        ChangeFields), and then looks in each batch for any changes to fields
        that become unnecessary (due to field deletion).
        """
        # The optimizations below rewrite mutations in place (renaming fields,
        # merging attributes). Work on copies, so that the caller's mutation
        # instances (usually an evolution module's MUTATIONS list) are left
        # untouched and can be processed again.
        mutation_batches = self._create_mutation_batches(
            copy.deepcopy(mutations))

        # Go through all the mutation batches and get our resulting set of
        # mutations to apply to the database.
        result_mutations = []

        try:
            for mutation_batch in mutation_batches:
                result_mutations.extend(
                    self._process_mutation_batch(mutation_batch))
        except CannotSimulate:
            logging.warning(
                'Unable to pre-process mutations for optimization. '
                '%s contains a mutation that cannot be smimulated.',
                self.app_label)
            result_mutations = mutations

        return result_mutations

    def _create_mutation_batches(self, mutations):
        """Creates batches of mutations that can be pre-processed together.

        Figure out batches of mutations that are pre-processable, and group
        them together. Each batch will be considered as a whole when attempting
        to figure out which mutations to include or to filter out.

        Mutations that are not pre-processable will be left in their own
        non-pre-processable batches.
        """
        cur_mutation_batch = (True, [])
        mutation_batches = [cur_mutation_batch]

        for mutation in mutations:
            can_process = isinstance(mutation, BaseModelMutation)

            if can_process != cur_mutation_batch[0]:
                cur_mutation_batch = (can_process, [])
                mutation_batches.append(cur_mutation_batch)

            cur_mutation_batch[1].append(mutation)

        return mutation_batches

    def _process_mutation_batch(self, mutation_batch):
        """Processes and optimizes a batch of mutations.

        This will look for any changes to fields that are unnecessary. It
        looks for any field that's deleted in this batch, and gets rid of any
        modifications made to that field, including the addition of the field.

        If the field is both added and deleted in this batch, all mutations
        concerning that field are filtered out.
        """
        can_process, mutations = mutation_batch

        if can_process:
            removed_mutations = set()
            deleted_fields = set()
            deleted_models = set()
            noop_fields = set()
            model_names = set()
            unique_together = {}
            model_meta_indexes = {}
            last_change_mutations = {}
            renames = {}
            model_renames = {}
            app_label_renames = {}

            # On our first pass, we loop from last to first mutation and
            # attempt the following things:
            #
            # 1) Filter out all mutations to fields that are later deleted.
            #    We locate DeleteFields and then the mutations that previously
            #    try to operate on those deleted fields (which are pointless
            #    to execute).
            #
            # 2) We also look to see if there are any AddFields in this batch
            #    that later have a corresponding DeleteField. We consider
            #    these mutations, and any others dealing with these fields,
            #    to be no-ops, which will be filtered out.
            #
            # 3) We collapse down multiple ChangeFields into the first
            #    listed ChangeField or AddField. If a batch contains an
            #    AddField and then one or more ChangeFields, it will result
            #    in only a single AddField, with the attributes the field
            #    would otherwise have after executing all ChangeFields.
            #
            # 4) All field renames are tracked. If the rename is for a field
            #    that's being deleted, it will be removed. Otherwise, the
            #    history of rename mutations are stored along with the field,
            #    in order from last to first, keyed off from the earliest
            #    field name.
            #
            # 5) Similarly, all model renames are tracked. If the rename is
            #    for a model being deleted, it will be removed. Otherwise, the
            #    history of model rename mutations are stored, in order from
            #    last to first, keyed off from the earliest model rename.
            #
            # 6) Completing the picture, all app ID/label renames are tracked.
            #    This will influence values for any models or fields.
            for mutation in reversed(mutations):
                remove_mutation = False

                model_names.add(mutation.model_name)

                if isinstance(mutation, AddField):
                    mutation_id = self._get_mutation_id(mutation)

                    if mutation_id in deleted_fields:
                        # This field is both added and deleted in this
                        # batch, resulting in a no-op. Track it for later
                        # so we can filter out the DeleteField.
                        noop_fields.add(mutation_id)
                        deleted_fields.remove(mutation_id)
                        remove_mutation = True
                    elif mutation_id in last_change_mutations:
                        # There's a ChangeField later in this batch that
                        # modifies this field. Roll those changes up into
                        # the initial AddField.
                        last_change_mutation = \
                            last_change_mutations[mutation_id]
                        self._copy_change_attrs(last_change_mutation,
                                                mutation)

                        # Remove that ChangeField from the list of mutations.
                        removed_mutations.add(last_change_mutation)
                        del last_change_mutations[mutation_id]
                elif isinstance(mutation, ChangeField):
                    mutation_id = self._get_mutation_id(mutation)

                    if mutation_id in deleted_fields:
                        # This field is scheduled for deletion in this batch,
                        # so this ChangeField is pointless. Filter it out.
                        remove_mutation = True
                    else:
                        # There's another ChangeField later in this batch that
                        # modifies this field. Roll those changes up into
                        # this ChangeField.
                        #
                        # Eventually, all ChangeFields for a given field
                        # will be rolled up into the first ChangeField.
                        last_change_mutation = \
                            last_change_mutations.get(mutation_id)

                        if last_change_mutation:
                            self._copy_change_attrs(last_change_mutation,
                                                    mutation)

                            # Remove that ChangeField from the list of
                            # mutations.
                            removed_mutations.add(last_change_mutation)

                        last_change_mutations[mutation_id] = mutation
                elif isinstance(mutation, DeleteField):
                    # Keep track of this field. Mutations preceding this
                    # DeleteField that reference this field name will be
                    # filtered out.
                    deleted_fields.add(self._get_mutation_id(mutation))
                elif isinstance(mutation, RenameField):
                    old_mutation_id = self._get_mutation_id(
                        mutation,
                        mutation.old_field_name)
                    new_mutation_id = self._get_mutation_id(
                        mutation,
                        mutation.new_field_name)

                    if new_mutation_id in deleted_fields:
                        # Rename the entry in the list of deleted fields so
                        # that other mutations earlier in the list can
                        # look it up.
                        deleted_fields.remove(new_mutation_id)
                        deleted_fields.add(old_mutation_id)
                        remove_mutation = True

                    # Create or update a record of rename mutations for this
                    # field. We use this to fix up field names on the second
                    # run through and to collapse RenameFields either into
                    # the first AddField or the first RenameField.
                    if new_mutation_id in renames:
                        self._rename_dict_key(renames,
                                              new_mutation_id,
                                              old_mutation_id)
                    else:
                        renames[old_mutation_id] = {
                            'can_process': False,
                            'mutations': [],
                        }

                    # Add the mutation to the list of renames for the field.
                    # This results in a chain from last RenameField to first.
                    renames[old_mutation_id]['mutations'].append(mutation)

                    if new_mutation_id in last_change_mutations:
                        # Rename the entry for the last ChangeField mutation
                        # so that earlier mutations will find the proper
                        # entry.
                        self._rename_dict_key(last_change_mutations,
                                              new_mutation_id,
                                              old_mutation_id)
                elif isinstance(mutation, DeleteModel):
                    # Keep track of this model. RenameModel mutations preceding
                    # this DeleteModel that reference this model name will be
                    # filtered out.
                    deleted_models.add(mutation.model_name)
                elif isinstance(mutation, RenameModel):
                    old_model_name = mutation.old_model_name
                    new_model_name = mutation.new_model_name

                    if new_model_name in deleted_models:
                        # Rename the entry in the list of deletd models so
                        # that other mutations earlier in the list can look
                        # it up.
                        deleted_models.remove(new_model_name)
                        deleted_models.add(old_model_name)
                        remove_mutation = True

                    # Create or update a record of rename mutations for this
                    # model. We use this to fix up field names on the second
                    # run through and to collapse RenameModels into the
                    # first RenameModel.
                    if new_model_name in model_renames:
                        self._rename_dict_key(model_renames,
                                              new_model_name,
                                              old_model_name)
                    else:
                        model_renames[old_model_name] = {
                            'can_process': False,
                            'mutations': [],
                        }

                    # Add the mutation to the list of renames for the model.
                    # This results in a chain from last RenameModel to first.
                    model_renames[old_model_name]['mutations'].append(mutation)
                elif isinstance(mutation, ChangeMeta):
                    if (mutation.prop_name == 'unique_together' and
                        mutation.model_name not in unique_together):
                        # This is the most recent unique_together change
                        # for this model, which wins, since each ChangeMeta
                        # is expected to contain the full resulting value
                        # of the property.
                        unique_together[mutation.model_name] = \
                            mutation.new_value
                    elif (mutation.prop_name == 'indexes' and
                          mutation.model_name not in model_meta_indexes):
                        # This is the most recent indexes change for this
                        # model, which wins, since each ChangeMeta is
                        # expected to contain the full resulting value of
                        # the property.
                        model_meta_indexes[mutation.model_name] = \
                            mutation.new_value
                elif isinstance(mutation, RenameAppLabel):
                    old_app_label = mutation.old_app_label
                    new_app_label = mutation.new_app_label

                    # Create or update a record of app label rename mutations
                    # for this app. We use this to fix up any related model
                    # field names on the second run through.
                    if new_app_label in app_label_renames:
                        self._rename_dict_key(app_label_renames,
                                              old_app_label,
                                              new_app_label)
                    else:
                        app_label_renames[old_app_label] = {
                            'can_process': False,
                            'mutations': [],
                        }

                    # Add the mutation to the list of renames for the app.
                    # This results in a chain from the last RenameAppLabel to
                    # the first.
                    app_label_renames[old_app_label]['mutations'].append(
                        mutation)

                if remove_mutation:
                    removed_mutations.add(mutation)

            # We may now have mutations marked for removal, others marked
            # as no-ops, and have information on renames. Time to finish up
            # the process.
            #
            # We now loop from first to last mutation and do the following:
            #
            # 1) Remove any DeleteFields that are part of a no-op. The
            #    other fields as part of the no-op were already scheduled for
            #    removal in the first loop.
            #
            # 2) Collapse down any RenameFields into the first RenameField or
            #    AddField, and schedule the remaining for removal.
            #
            #    It also sets renames to be processable (so that they will
            #    affect other field names) the first time an AddField or
            #    RenameField is encountered.
            #
            #    Every RenameField that is processed is removed from the
            #    renames mutations list, updating the key, in order to allow
            #    future lookups to find the entry.
            #
            # 3) Change the field name on any fields from processable rename
            #    entries.
            #
            # 4) Collapse down any RenameModels into the first RenameModel,
            #    and schedule the remaining for removal.
            #
            # 5) Collapse down any RenameAppLabels into the first
            #    RenameAppLabel and schedule the remaining for removal.
            #
            # 5) Update any added fields referencing another model (such as a
            #    ForeignKey) to reference the model's new name or app label,
            #    if renamed.
            #
            # 6) Remove any RenameModels that are renaming to the name
            #    already found in the current signature. This is needed in
            #    case we're processing RenameModels for a model that was just
            #    introduced, so we don't attempt to rename a non-existing name
            #    to the current name.
            if (noop_fields or renames or model_renames or app_label_renames or
                unique_together or model_meta_indexes):
                for mutation in mutations:
                    remove_mutation = False

                    if isinstance(mutation, AddField):
                        mutation_id = self._get_mutation_id(mutation)

                        if mutation_id in renames:
                            # Update the field name being added to the
                            # final name.
                            rename_info = renames[mutation_id]
                            rename_info['can_process'] = True
                            rename_mutations = rename_info['mutations']
                            rename_mutation = rename_mutations[0]
                            mutation.field_name = \
                                rename_mutation.new_field_name

                            if rename_mutation.db_column:
                                mutation.field_attrs['db_column'] = \
                                    rename_mutation.db_column

                            # Filter out each of the RenameFields.
                            removed_mutations.update(rename_mutations)

                        related_model = \
                            mutation.field_attrs.get('related_model')

                        if related_model:
                            app_label, related_model_name = \
                                related_model.split('.')
                            app_label_rename_info = \
                                app_label_renames.get(app_label)
                            model_rename_info = \
                                model_renames.get(related_model_name)

                            if app_label_rename_info:
                                app_label_rename_info['can_process'] = True
                                rename_mutation = \
                                    app_label_rename_info['mutations'][0]
                                new_app_label = rename_mutation.new_app_label
                            else:
                                new_app_label = None

                            if model_rename_info:
                                model_rename_info['can_process'] = True
                                rename_mutation = \
                                    model_rename_info['mutations'][0]
                                new_model_name = rename_mutation.new_model_name
                            else:
                                new_model_name = None

                            if new_app_label or new_model_name:
                                # Update the related_model set in the final
                                # field.
                                mutation.field_attrs['related_model'] = (
                                    '%s.%s'
                                    % (
                                        new_app_label or app_label,
                                        new_model_name or related_model_name,
                                    ))
                    elif isinstance(mutation, ChangeField):
                        mutation_id = self._get_mutation_id(mutation)

                        if mutation_id in renames:
                            # The field has been renamed, so update the name of
                            # this ChangeField.
                            rename_info = renames[mutation_id]

                            if rename_info['can_process']:
                                rename_mutation = rename_info['mutations'][0]
                                mutation.field_name = \
                                    rename_mutation.new_field_name
                    elif isinstance(mutation, DeleteField):
                        mutation_id = self._get_mutation_id(mutation)

                        if mutation_id in noop_fields:
                            # This DeleteField is pointless, since the
                            # field it's trying to delete was added in this
                            # batch. Just remove it. We'll have removed all
                            # others related to it by now.
                            remove_mutation = True
                        elif mutation_id in renames:
                            # The field has been renamed, so update the name
                            # of this DeleteField.
                            rename_info = renames[mutation_id]

                            if rename_info['can_process']:
                                rename_mutation = rename_info['mutations'][0]
                                mutation.field_name = \
                                    rename_mutation.old_field_name
                    elif isinstance(mutation, RenameField):
                        old_mutation_id = self._get_mutation_id(
                            mutation,
                            mutation.old_field_name)
                        new_mutation_id = self._get_mutation_id(
                            mutation,
                            mutation.new_field_name)

                        if old_mutation_id in noop_fields:
                            # Rename the entry in noop_fields so that we
                            # can properly handle future mutations
                            # referencing that field.
                            noop_fields.remove(old_mutation_id)
                            noop_fields.add(new_mutation_id)
                            remove_mutation = True

                        if old_mutation_id in renames:
                            # Set the renames for this field to be processable.
                            # Then we'll update the mutation list and the
                            # key in order to allow for future lookups.
                            rename_info = renames[old_mutation_id]
                            rename_info['can_process'] = True
                            rename_mutations = rename_info['mutations']

                            self._rename_dict_key(renames,
                                                  old_mutation_id,
                                                  new_mutation_id)

                            # This will become the main RenameField, so we
                            # want it to rename to the final field name.
                            mutation.new_field_name = \
                                rename_mutations[0].new_field_name

                            # The last rename also decides the column or
                            # table name the field ends up with.
                            mutation.db_column = rename_mutations[0].db_column
                            mutation.db_table = rename_mutations[0].db_table

                            # Mark everything but the last rename mutation
                            # for removal, and update the list of mutations to
                            # include only this one.
                            removed_mutations.update(rename_mutations[:-1])
                            rename_info['mutations'] = [rename_mutations[-1]]
                    elif isinstance(mutation, DeleteModel):
                        rename_info = model_renames.get(mutation.model_name)

                        if rename_info and rename_info['can_process']:
                            # The model has been renamed, so update the name
                            # of this DeleteModel.
                            rename_mutation = rename_info['mutations'][0]
                            mutation.model_name = \
                                rename_mutation.old_model_name
                    elif isinstance(mutation, RenameModel):
                        old_model_name = mutation.old_model_name
                        new_model_name = mutation.new_model_name

                        if old_model_name in model_renames:
                            # Set the renames for this model to be processable.
                            # Then we'll update the mutation list and the key
                            # in order to allow for future lookups.
                            rename_info = model_renames[old_model_name]
                            rename_info['can_process'] = True
                            rename_mutations = rename_info['mutations']
                            rename_mutation = rename_mutations[0]

                            self._rename_dict_key(model_renames,
                                                  old_model_name,
                                                  new_model_name)

                            # This will become the main RenameModel, so we
                            # want it to rename to the final model name.
                            mutation.new_model_name = \
                                rename_mutation.new_model_name

                            if rename_mutation.db_table:
                                mutation.db_table = rename_mutation.db_table

                            # Mark everything but the last rename mutation
                            # for removal, and update the list of mutations to
                            # include only this one
                            removed_mutations.update(rename_mutations[:-1])
                            rename_info['mutations'] = [rename_mutations[-1]]

                            # If we're actually renaming to what we already
                            # have in the baseline (due to having installed a
                            # baseline schema for this model just previously),
                            # we can skip this mutation entirely.
                            #
                            # Note that we may have the model in there due to
                            # a new baseline being created, but still have the
                            # old model in the signature. In this case, we
                            # still want the rename included in the mutations,
                            # so we need to check to make sure only the new
                            # model name is in there.
                            app_sig = \
                                self.project_sig.get_app_sig(self.app_label)

                            if (app_sig.get_model_sig(new_model_name) and
                                not app_sig.get_model_sig(old_model_name)):
                                remove_mutation = True
                    elif isinstance(mutation, ChangeMeta):
                        if (mutation.prop_name == 'unique_together' and
                            mutation.model_name in unique_together):
                            # This was a previously found unique_together.
                            # We'll check if the value matches the winning
                            # value from before. If not, we'll discard this
                            # mutation.
                            value = unique_together[mutation.model_name]

                            if mutation.new_value != value:
                                remove_mutation = True
                        elif (mutation.prop_name == 'indexes' and
                              mutation.model_name in model_meta_indexes):
                            # This was a previously found indexes cange. We'll
                            # check if the value matches the winning value from
                            # before. If not, we'll discard this mutation.
                            value = model_meta_indexes[mutation.model_name]

                            if mutation.new_value != value:
                                remove_mutation = True
                    elif isinstance(mutation, RenameAppLabel):
                        old_app_label = mutation.old_app_label
                        new_app_label = mutation.new_app_label

                        if old_app_label in app_label_renames:
                            # Set the renames for this app to be processable.
                            # Then we'll update the mutation list and the key
                            # in order to allow for future lookups.
                            rename_info = app_label_renames[old_app_label]
                            rename_info['can_process'] = True
                            rename_mutations = rename_info['mutations']
                            rename_mutation = rename_mutations[0]

                            self._rename_dict_key(model_renames,
                                                  old_app_label,
                                                  new_app_label)

                            # This will become the main RenameAppLabel, so we
                            # want it to rename to the final app label.
                            mutation.new_app_label = \
                                rename_mutation.new_app_label

                            # Mark everything but the last rename mutation
                            # for removal, and update the list of mutations to
                            # include only this one
                            removed_mutations.update(rename_mutations[:-1])
                            rename_info['mutations'] = [rename_mutations[-1]]

                            # If we're actually renaming to what we already
                            # have in the baseline (due to having installed a
                            # baseline signature for this app just previously),
                            # we can skip this mutation entirely.
                            if self.app_label == new_app_label:
                                remove_mutation = True

                    if remove_mutation:
                        removed_mutations.add(mutation)

            # Filter out all mutations we've scheduled for removal.
            mutations = [
                mutation
                for mutation in mutations
                if mutation not in removed_mutations
            ]

            # Try to group all mutations to a table together. This lets the
            # evolver's optimizations to better group together operations.
            mutations_by_model = dict([
                (model_name, [])
                for model_name in model_names
            ])

            for mutation in mutations:
                mutations_by_model[mutation.model_name].append(mutation)

            mutations = [
                mutation
                for model_name in sorted(model_names)
                for mutation in mutations_by_model[model_name]
            ]

        return mutations

    def _copy_change_attrs(self, source_mutation, dest_mutation):
        """Copy attributes for a ChangeField from one mutation to another.

        This will copy the field type, initial value, and any arbitrary
        attributes from ``source_mutation`` to ``dest_mutation``, if any are
        set.

        Args:
            source_mutation (django_evolution.mutations.ChangeField):
                The mutation to copy from.

            dest_mutation (django_evolution.mutations.ChangeField):
                The mutation to copy to.
        """
        dest_mutation.field_attrs.update(source_mutation.field_attrs)

        if source_mutation.field_type is not None:
            dest_mutation.field_type = source_mutation.field_type

        if source_mutation.initial is not None:
            dest_mutation.initial = source_mutation.initial

    def _rename_dict_key(self, d, old_key, new_key):
        d[new_key] = d[old_key]
        del d[old_key]

    def _get_mutation_id(self, mutation, field_name=None):
        assert hasattr(mutation, 'model_name')
        assert field_name or hasattr(mutation, 'field_name')

        return (mutation.model_name, field_name or mutation.field_name)
