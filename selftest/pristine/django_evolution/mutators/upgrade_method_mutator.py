"""Mutator that changes the upgrade method of an app."""

from __future__ import unicode_literals

from django_evolution.mutations.base import BaseUpgradeMethodMutation
from django_evolution.mutators.base import BaseAppStateMutator


class UpgradeMethodMutator(BaseAppStateMutator):
    """Changes the upgrade method of an app.

    This is used by the app mutator to track mutations that change the upgrade
    method, and to ensure that a simulation is run during the finalization
    process in order to apply changes back to the signature.

    Version Changed:
        2.2
    """

    def __init__(self, app_mutator, mutation):
        """Initialize the mutator.

        Args:
            app_mutator (django_evolution.mutators.app_mutator.AppMutator):
                The parent app mutator.

            mutation (django_evolution.mutations.base.
                      BaseUpgradeMethodMutation):
                The mutation that this mutator will manage.
        """
        assert isinstance(mutation, BaseUpgradeMethodMutation)

        super(UpgradeMethodMutator, self).__init__(app_mutator=app_mutator)

        self._mutation = mutation

    def finalize(self):
        """Finalize the mutator.

        This will finalize the object and then run a final simulation to update
        the signature.

        After the mutator is finalized, no new state can be scheduled or
        modified.
        """
        super(UpgradeMethodMutator, self).finalize()

        self.run_simulation(self._mutation)
