"""Base classes for mutators.

Version Added:
    2.2
"""

from __future__ import unicode_literals

from django_evolution.errors import CannotSimulate


class BaseMutator(object):
    """Base class for all mutators.

    Version Added:
        2.2
    """

    def __init__(self):
        """Initialize the mutator."""
        self.can_simulate = True
        self.finalized = False

    def finalize(self):
        """Finalize the mutator.

        After a mutator is finalized, no new state can be scheduled or
        modified.
        """
        self.finalized = True

    def to_sql(self):
        """Return SQL for the operations added to this mutator.

        The SQL will represent all the operations made by the mutator, as
        determined by the database operations backend.

        Subclasses that override this must call :py:meth:`finalize` when done.

        Returns:
            list:
            The list of SQL statements.

            Each item may be one of the following:

            1. A Unicode string representing an SQL statement
            2. A tuple in the form of ``(sql_statement, sql_params)``
            3. An instance of :py:class:`django_evolution.db.sql_result.
               SQLResult`.
        """
        return []


class BaseAppStateMutator(BaseMutator):
    """Base class for mutators that modify app state.

    These will always be constructed and managed by
    :py:class:`django_evolution.mutators.app_mutator.AppMutator`.

    Version Added:
        2.2
    """

    def __init__(self, app_mutator):
        """Initialize the mutator.

        Args:
            app_mutator (django_evolution.mutators.app_mutator.AppMutator):
                The parent app mutator.
        """
        super(BaseAppStateMutator, self).__init__()

        self.app_mutator = app_mutator
        self.database = app_mutator.database

    @property
    def app_label(self):
        """The app label representing the app being changed.

        This always forwards on to the parent app mutator's app label, as that
        may change.

        Type:
            unicode
        """
        return self.app_mutator.app_label

    @app_label.setter
    def app_label(self, value):
        """Set the app label representing the app being changed.

        This always updates the parent app mutator's app label.

        Args:
            value (unicode):
                The new app label.
        """
        self.app_mutator.app_label = value

    @property
    def legacy_app_label(self):
        """The legacy app label representing the app being changed.

        This always forwards on to the parent app mutator's legacy app label,
        as that may change.

        Type:
            unicode
        """
        return self.app_mutator.legacy_app_label

    @property
    def project_sig(self):
        """The project signature being used for operations.

        This always forwards on to the parent app mutator's project signature,
        as that may change.

        Type:
            django_evolution.signature.ProjectSignature
        """
        return self.app_mutator.project_sig

    @property
    def database_state(self):
        """The database state being used for operations.

        This always forwards on to the parent app mutator's databaes state,
        as that may change.

        Type:
            django_evolution.db.state.DatabaseState
        """
        return self.app_mutator.database_state

    def run_mutation(self, mutation, mutate_kwargs={}):
        """Run the specified mutation.

        The mutation may apply changes to the database.

        Args:
            mutation (django_evolution.mutations.BaseMutation):
                The mutation to run.

            mutate_kwargs (dict, optional):
                Keyword arguments to pass to the mutate method.

        Raises:
            django_evolution.errors.EvolutionBaselineMissingError:
                The model signature or parent app signature could not be found.
        """
        assert not self.finalized

        mutation.mutate(self, **mutate_kwargs)
        self.run_simulation(mutation)

    def run_simulation(self, mutation):
        """Run a simulation of a mutation.

        The mutation may apply changes to the database project signature, but
        may not apply to the database.

        This may be run after :py:meth:`run_mutation`, in order to update the
        signature with the changes that a mutation has made.

        If simulation fails, :py:attr:`can_simulate` will be set to ``False``.

        Args:
            mutation (django_evolution.mutations.BaseMutation):
                The mutation to simulate.
        """
        try:
            mutation.run_simulation(app_label=self.app_label,
                                    legacy_app_label=self.legacy_app_label,
                                    project_sig=self.project_sig,
                                    database_state=self.database_state,
                                    database=self.database)
        except CannotSimulate:
            self.can_simulate = False
