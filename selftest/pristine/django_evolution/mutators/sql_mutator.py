"""Mutator that applies arbitrary SQL to the database.

Version Added:
    2.2
"""

from __future__ import unicode_literals

from django_evolution.mutators.base import BaseMutator


class SQLMutator(BaseMutator):
    """A mutator that applies arbitrary SQL to the database.

    This is instantiated by :py:class:`~django_evolution.mutators.app_mutator.
    AppMutator`, and should not be created manually.

    Version Changed:
        2.2:
        Moved into the :py:mod:`django_evolution.mutators.sql_mutator` module.
    """

    def __init__(self, mutation, sql):
        """Initialize the mutator.

        Args:
            mutation (django_evolution.mutations.base.BaseMutation):
                The mutation that generated this SQL.

            sql (list):
                The list of SQL statements. See the return type in
                :py:meth:`to_sql` for possible values.
        """
        super(SQLMutator, self).__init__()

        self.mutation = mutation
        self.sql = sql

    def to_sql(self):
        """Return SQL passed to this mutator.

        Returns:
            list:
            The list of SQL statements.

            Each item may be one of the following:

            1. A Unicode string representing an SQL statement
            2. A tuple in the form of ``(sql_statement, sql_params)``
            3. An instance of :py:class:`django_evolution.db.sql_result.
               SQLResult`.
        """
        self.finalize()

        return self.sql
