"""Utilities for working with apps."""

from __future__ import unicode_literals

from importlib import import_module

from django.conf import settings
from django.utils.module_loading import module_has_submodule

from django_evolution.compat.apps import apps


def get_app_config_for_app(app):
    """Return the app configuration for an app.

    This can only be called if running on Django 1.7 or higher.

    Args:
        app (module):
            The app's models module to return the configuration for.
            The models module is used for legacy reasons within Django
            Evolution.

    Returns:
        django.apps.AppConfig:
        The app configuration, or ``None`` if it couldn't be found.
    """
    assert apps, \
        'get_app_config_for_app() can only be called on Django >= 1.7'

    for app_config in apps.get_app_configs():
        if app_config.models_module is app:
            return app_config

    return None


def get_app_label(app):
    """Return the label of an app.

    Args:
        app (module):
            The app.

    Returns:
        str:
        The label of the app.
    """
    if apps:
        # Django >= 1.7
        return get_app_config_for_app(app).label
    else:
        # Django < 1.7
        return get_legacy_app_label(app)


def get_app_name(app):
    """Return the name of an app.

    Args:
        app (module):
            The app.

    Returns:
        str:
        The name of the app.
    """
    if apps:
        # Django >= 1.7
        app_config = get_app_config_for_app(app)

        return app_config.name
    else:
        # Django < 1.7
        return '.'.join(app.__name__.split('.')[:-1])


def get_legacy_app_label(app):
    """Return the label of an app.

    Args:
        app (module):
            The app.

    Returns:
        str:
        The label of the app.
    """
    return app.__name__.split('.')[-2]


def import_management_modules():
    """Import the management modules for all apps.

    Management modules often contain signal handlers for pre/post
    syncdb/migrate events. This will import them correctly for the current
    version of Django.

    Raises:
        ImportError:
            A management module failed to import.
    """
    if apps:
        # Django >= 1.7
        app_names_modules = [
            (app_config.name, app_config.module)
            for app_config in apps.get_app_configs()
        ]
    else:
        # Django < 1.7
        app_names_modules = [
            (app_name, import_module(app_name))
            for app_name in settings.INSTALLED_APPS
        ]

    for (app_name, app_module) in app_names_modules:
        if module_has_submodule(app_module, 'management'):
            import_module('.management', app_name)
