"""Utilities for working with data structures.

Version Added:
    2.1
"""

from __future__ import unicode_literals

from collections import OrderedDict

from django_evolution.compat import six


def filter_dup_list_items(items):
    """Return list items with duplicates filtered out.

    The order of items will be preserved, but only the first occurrence of
    any given item will remain in the list.

    Version Added:
        2.1

    Args:
        items (list):
            The list of items.

    Returns:
        list:
        The resulting de-duplicated list of items.
    """
    return list(six.iterkeys(OrderedDict(
        (item, True)
        for item in items
    )))


def merge_dicts(dest, source):
    """Merge two dictionaries together.

    This will recursively merge a source dictionary into a destination
    dictionary with the following rules:

    * Any keys in the source that aren't in the destination will be placed
      directly to the destination (using the same instance of the value, not
      a copy).
    * Any lists that are in both the source and destination will be combined
      by appending the source list to the destinataion list (and this will not
      recurse into lists).
    * Any dictionaries that are in both the source and destinataion will be
      merged using this function.
    * Any keys that are not a list or dictionary that exist in both
      dictionaries will result in a :py:exc:`TypeError`.

    Version Added:
        2.1

    Args:
        dest (dict):
            The destination dictionary to merge into.

        source (dict):
            The source dictionary to merge into the destination.

    Raises:
        TypeError:
            A key was present in both dictionaries with a type that could not
            be merged.
    """
    for key, value in six.iteritems(source):
        if key in dest:
            if isinstance(value, list):
                if not isinstance(dest[key], list):
                    raise TypeError(
                        'Cannot merge a list into a %r for key "%s".'
                        % (type(dest[key]), key))

                dest[key] += value
            elif isinstance(value, dict):
                if not isinstance(dest[key], dict):
                    raise TypeError(
                        'Cannot merge a dictionary into a %r for key "%s".'
                        % (type(dest[key]), key))

                merge_dicts(dest[key], value)
            else:
                raise TypeError(
                    'Key "%s" was not an expected type (found %r) '
                    'when merging dictionaries.'
                    % (key, type(value)))
        else:
            dest[key] = value
