"""Utilities for working with SQL statements."""

from __future__ import print_function, unicode_literals

import logging

from django.db import connections
from django.db.transaction import TransactionManagementError

from django_evolution.compat import six
from django_evolution.compat.db import atomic
from django_evolution.db import EvolutionOperationsMulti


logger = logging.getLogger(__name__)


class BaseGroupedSQL(object):
    """Base class for a grouped list of SQL statements.

    This is a simple wrapper around a list of SQL statements, used to
    group statements under some category defined by a subclass.

    Attributes:
        sql (list):
            A list of SQL statements, as allowed by :py:func:`run_sql`.
    """

    def __init__(self, sql):
        """Initialize the group.

        Args:
            sql (list):
                A list of SQL statements, as allowed by :py:func:`run_sql`.
        """
        self.sql = sql


class NewTransactionSQL(BaseGroupedSQL):
    """A list of SQL statements to execute in its own transaction."""


class NoTransactionSQL(BaseGroupedSQL):
    """A list of SQL statements to execute outside of a transaction."""


class SQLExecutor(object):
    """Management for the execution of SQL.

    This allows callers to perform raw SQL queries against the database,
    and to do so with a fine degree of transaction management. Callers can
    continually add new SQL to execute and, in-between, enter into a new
    transaction, ensure a previous transaction is already open, or close out
    any existing transaction.

    Through this, it can effectively script a set of transactions and queries
    in a more loose form than normally allowed by Django.

    Version Added:
        2.1
    """

    def __init__(self, database, check_constraints=True):
        """Initialize the executor.

        Args:
            database (unicode):
                The registered database name where queries will be executed.

            check_constraints (bool, optional):
                Whether to check constraints during the execution of SQL.
                If disabled, it's up to the caller to manually invoke a
                constraint check.
        """
        self._check_constraints = check_constraints
        self._connection = connections[database]
        self._database = database

        self._constraints_disabled = False
        self._cursor = None
        self._evolver_backend = None
        self._latest_transaction = None

    def __enter__(self):
        """Enter the context manager.

        This will prepare internal state for execution, and optionally disable
        constraint checking (if requested during construction).

        The context manager must be entered before operations will work.

        Context:
            SQLExecutor:
            This instance.
        """
        connection = self._connection
        database = self._database

        if (connection.in_atomic_block and
            not connection.features.can_rollback_ddl):
            logger.warning('Some database schema modifications may not be '
                           'able to be rolled back on this database if '
                           'something goes wrong.')

        if not self._check_constraints:
            self._constraints_disabled = \
                connection.disable_constraint_checking()

        self._cursor = connection.cursor()
        self._evolver_backend = \
            EvolutionOperationsMulti(database).get_evolver()

        return self

    def __exit__(self, *args, **kwargs):
        """Exit the context manager.

        This will commit any transaction that may be in progress, close the
        database cursor, and re-enable constraint checking if it were
        previously disabled.

        Args:
            *args (tuple, unused):
                Unused positional arguments.

            **kwargs (dict, unused):
                Unused keyword arguments.
        """
        self.finish_transaction(*args)

        self._cursor.close()
        self._cursor = None

        if self._constraints_disabled:
            self._connection.enable_constraint_checking()

    def new_transaction(self):
        """Start a new transaction.

        This will commit any prior transaction, if one exists, and then start
        a new one.
        """
        self.finish_transaction()

        transaction = atomic(using=self._database)
        transaction.__enter__()
        self._latest_transaction = transaction

    def ensure_transaction(self):
        """Ensure a transaction has started.

        If no existing transaction has started, this will start a new one.
        """
        if not self._latest_transaction:
            self.new_transaction()

    def finish_transaction(self, exc_type=None, exc_value=None,
                           traceback=None):
        """Finish a transaction.

        The transaction will be committed, unless exception information is
        provided, in which case it will be rolled back.

        Args:
            exc_type (type, optional):
                The type of the exception that caused the transaction to
                finish, if any.

            exc_value (Exception, optional):
                The exception that caused the transaction to finish, if any.

            traceback (traceback, optional):
                The traceback for the exception, if any.
        """
        transaction = self._latest_transaction

        if transaction:
            transaction.__exit__(exc_type, exc_value, traceback)
            self._latest_transaction = None

    def run_sql(self, sql, capture=False, execute=False):
        """Run (execute and/or capture) a list of SQL statements.

        Args:
            sql (list):
                A list of SQL statements. Each entry might be a string, a
                tuple consisting of a format string and formatting arguments,
                or a subclass of :py:class:`BaseGroupedSQL`, or a callable
                that returns a list of the above.

            capture (bool, optional):
                Whether to capture any processed SQL statements.

            execute (bool, optional):
                Whether to execute any executed SQL statements and return them.

        Returns:
            list of unicode:
            The list of SQL statements executed, if passing
            ``capture=True``. Otherwise, this will just be an empty list.

        Raises:
            django.db.transaction.TransactionManagementError:
                Could not execute a batch of SQL statements inside of an
                existing transaction.
        """
        qp = self._evolver_backend.quote_sql_param
        cursor = self._cursor

        statement = None
        params = None
        out_sql = []

        try:
            batches = self._prepare_transaction_batches(
                self._prepare_sql(sql))

            if execute and self._connection.in_atomic_block:
                # Check if there are any statements that must run outside of
                # a transaction.
                batches = list(batches)

                for batch, use_transaction, new_transaction in batches:
                    if not use_transaction:
                        logging.error(
                            'Unable to execute the following SQL inside of a '
                            'transaction: %r',
                            batch)

                        raise TransactionManagementError(
                            'Unable to execute SQL inside of an existing '
                            'transaction. See the logging for more '
                            'information.')

            for i, (batch, use_transaction,
                    new_transaction) in enumerate(batches):
                if execute:
                    if not use_transaction:
                        self.finish_transaction()
                    elif new_transaction:
                        # The statements explicitly asked for their own
                        # transaction.
                        self.new_transaction()
                    else:
                        # Join the transaction that's already in progress
                        # on this executor (from an earlier call to
                        # run_sql()), so that everything run through the
                        # executor is committed or rolled back together.
                        self.ensure_transaction()

                if capture and i > 0:
                    if use_transaction:
                        out_sql.append('-- Start of a new transaction:')
                    else:
                        out_sql.append('-- Run outside of a transaction:')

                for statement, params in batch:
                    if capture:
                        if params:
                            out_sql.append(statement % tuple(
                                qp(param)
                                for param in params
                            ))
                        else:
                            out_sql.append(statement)

                    if execute:
                        cursor.execute(statement, params)
        except Exception as e:
            # Augment the exception so that callers can get the SQL statement
            # that failed.
            e.last_sql_statement = (statement, params)

            raise

        return out_sql

    def _prepare_sql(self, sql):
        """Prepare batches of SQL statements for execution.

        This will take the SQL statements that have been scheduled to be run
        and yields them one-by-one for execution.

        All comments and blank lines will be filtered out.

        Args:
            sql (object):
                A list of SQL statements. Each entry might be a string, a
                tuple consisting of a format string and formatting arguments,
                or a subclass of :py:class:`BaseGroupedSQL`, or a callable
                that returns a list of the above.

        Yields:
            tuple:
            A tuple containing a statement to execute, in order. This will be
            a tuple containing:

            1. The SQL statement as a string
            2. A tuple of parameters for the SQL statements (which may be
               empty)
            3. Whether this statement should be run in a transaction.
            4. Whether this statement's transaction should be the start of a
               brand new, independent transaction (rather than using a
               previous one).
        """
        normalize_value = self._evolver_backend.normalize_value

        for statements in sql:
            if callable(statements):
                statements = statements(self._cursor)

                for result in self._prepare_sql(statements):
                    yield result
            else:
                new_transaction = False

                if isinstance(statements, NoTransactionSQL):
                    use_transaction = False
                    statements = statements.sql
                elif isinstance(statements, NewTransactionSQL):
                    new_transaction = True
                    use_transaction = True
                    statements = statements.sql
                else:
                    use_transaction = True

                    if not isinstance(statements, list):
                        statements = [statements]

                for statement in statements:
                    if isinstance(statement, tuple):
                        statement, params = statement
                        assert isinstance(params, tuple)

                        if not params:
                            # There's nothing to substitute, so this must not
                            # be treated as a format string. Otherwise, any
                            # literal "%" in the statement would be
                            # interpreted when executing the statement (but
                            # not when capturing it).
                            params = None
                    else:
                        params = None

                    assert isinstance(statement, six.text_type)

                    statement = statement.strip()

                    if statement and not statement.startswith('--'):
                        if params is not None:
                            params = tuple(
                                normalize_value(param)
                                for param in params
                            )

                        yield (statement, params, use_transaction,
                               new_transaction)

                        # If we've set this above, reset it. We only want the
                        # first statement in a batch to flag a new transaction.
                        new_transaction = False

    def _prepare_transaction_batches(self, prepared_sql):
        """Prepare batches of SQL statements to run together.

        This takes in prepared SQL statements and generates batches of
        statements to run together inside or outside of a transaction.

        Args:
            prepared_sql (list of tuple):
                A list of SQL statement information generated by
                :py:meth:`_prepare_sql`.

        Yields:
            tuple:
            Information on a batch of statements to to execute. This will be
            a tuple containing:

            1. The list of SQL statements.
            2. Whether to execute these statements in a transaction.
            3. Whether the statements explicitly require a brand new
               transaction (rather than joining one already in progress).
        """
        batch = None
        last_use_transaction = None
        batch_new_transaction = False

        for (statement, params, use_transaction,
             new_transaction) in prepared_sql:
            if new_transaction or use_transaction is not last_use_transaction:
                if batch:
                    yield (batch, last_use_transaction,
                           batch_new_transaction)

                batch = []
                last_use_transaction = use_transaction
                batch_new_transaction = new_transaction

            batch.append((statement, params))

        if batch:
            yield batch, last_use_transaction, batch_new_transaction
