"""Utilities for working with models."""

from __future__ import unicode_literals

from collections import defaultdict

from django.db import router

from django_evolution.compat import six
from django_evolution.compat.models import (get_field_is_hidden,
                                            get_field_is_many_to_many,
                                            get_field_is_relation,
                                            get_model,
                                            get_models,
                                            get_remote_field,
                                            get_remote_field_model,
                                            get_remote_field_related_model)


_rel_tree_cache = None


def get_database_for_model_name(app_name, model_name):
    """Return the database used for a given model.

    Given an app name and a model name, this will return the proper
    database connection name used for making changes to that model. It
    will go through any custom routers that understand that type of model.

    Args:
        app_name (unicode):
            The name of the app owning the model.

        model_name (unicode):
            The name of the model.

    Returns:
        unicode:
        The name of the database used for the model.
    """
    return router.db_for_write(get_model(app_name, model_name))


def walk_model_tree(model):
    """Walk through a tree of models.

    This will yield the provided model and its parents, in turn yielding
    their parents, and so on.

    Version Added:
        2.2

    Args:
        model (type):
            The top of the model tree to iterate through.

    Yields:
        type:
        Each model class in the tree.
    """
    yield model

    for parent in model._meta.parents:
        for _model in walk_model_tree(parent):
            yield _model


def get_model_rel_tree():
    """Return the full field relationship tree for all registered models.

    This will walk through every field in every model registered in Django,
    storing the relationships between objects, caching them. Each entry in
    the resulting dictionary will be a table mapping to a list of relation
    fields that point back at it.

    This can be used to quickly locate any and all reverse relations made to
    a field.

    This is similar to Django's built-in reverse relation tree used internally
    (with different implementations) in
    :py:class:`django.db.models.options.Options`, but works across all
    supported versions of Django, and supports cache clearing.

    Version Added:
        2.2

    Returns:
        dict:
        The model relation tree.
    """
    global _rel_tree_cache

    if _rel_tree_cache is not None:
        return _rel_tree_cache

    rel_tree = defaultdict(list)
    all_models = get_models(include_auto_created=True)

    # We'll walk the entire model tree, looking for any immediate fields on
    # each model, building a mapping of models to fields that reference the
    # model.
    for cur_model in all_models:
        if cur_model._meta.abstract:
            continue

        for field in iter_model_fields(cur_model,
                                       include_parent_models=False,
                                       include_forward_fields=True,
                                       include_reverse_fields=False,
                                       include_hidden_fields=False):
            if (get_field_is_relation(field) and
                get_remote_field_related_model(field) is not None):
                remote_field = get_remote_field(field)
                remote_field_model = get_remote_field_model(remote_field)

                # Make sure this isn't a "self" relation or similar.
                if not isinstance(remote_field_model, six.string_types):
                    db_table = \
                        remote_field_model._meta.concrete_model._meta.db_table
                    rel_tree[db_table].append(field)

    _rel_tree_cache = rel_tree

    return rel_tree


def clear_model_rel_tree():
    """Clear the model relationship tree.

    This will cause the next call to :py:func:`get_model_rel_tree` to
    re-compute the full tree.

    Version Added:
        2.2
    """
    global _rel_tree_cache

    _rel_tree_cache = None


def iter_model_fields(model,
                      include_parent_models=True,
                      include_forward_fields=True,
                      include_reverse_fields=False,
                      include_hidden_fields=False,
                      seen_models=None):
    """Iterate through all fields on a model using the given criteria.

    This is roughly equivalent to Django's internal
    :py:func:`django.db.models.options.Option._get_fields` on Django 1.8+,
    but makes use of our model reverse relation tree, and works across all
    supported versions of Django.

    Version Added:
        2.2

    Args:
        model (type):
            The model owning the fields.

        include_parent_models (bool, optional):
            Whether to include fields defined on parent models.

        include_forward_fields (bool, optional):
            Whether to include fields owned by the model (or a parent).

        include_reverse_fields (bool, optional):
            Whether to include fields on other models that point to this
            model.

        include_hidden_fields (bool, optional):
            Whether to include hidden fields.

        seen_models (set, optional):
            Models seen during iteration. This is intended for internal
            use only by this function.

    Yields:
        django.db.models.Field:
        Each field matching the criteria.
    """
    concrete_model = model._meta.concrete_model

    if seen_models is None:
        seen_models = set()

    if include_parent_models:
        candidate_models = walk_model_tree(model)
    else:
        candidate_models = [model]

    if include_reverse_fields:
        # Find all models containing fields that point to this model.
        rel_tree = get_model_rel_tree()
        rel_fields = rel_tree.get(model._meta.concrete_model._meta.db_table,
                                  [])
    else:
        rel_fields = []

    for cur_model in candidate_models:
        cur_model_label = cur_model._meta.db_table

        if (cur_model_label in seen_models or
            cur_model._meta.concrete_model != concrete_model):
            continue

        seen_models.add(cur_model_label)

        if include_parent_models:
            for parent in cur_model._meta.parents:
                if parent not in seen_models:
                    parent_fields = iter_model_fields(
                        parent,
                        include_parent_models=True,
                        include_forward_fields=include_forward_fields,
                        include_reverse_fields=include_reverse_fields,
                        include_hidden_fields=include_hidden_fields)

                    for field in parent_fields:
                        yield field

        if include_reverse_fields and not cur_model._meta.proxy:
            for rel_field in rel_fields:
                remote_field = get_remote_field(rel_field)

                if (include_hidden_fields or
                    not get_field_is_hidden(remote_field)):
                    yield remote_field

        if include_forward_fields:
            for field in cur_model._meta.local_fields:
                yield field

            for field in cur_model._meta.local_many_to_many:
                yield field

    # Django >= 1.10
    for field in getattr(model._meta, 'private_fields', []):
        yield field


def iter_non_m2m_reverse_relations(field):
    """Iterate through non-M2M reverse relations pointing to a field.

    This will exclude any :py:class:`~django.db.models.ManyToManyField`s,
    but will include the relation fields on their "through" tables.

    Note that this may return duplicate results, or multiple relations
    pointing to the same field. It's up to the caller to handle this.

    Version Added:
        2.2

    Args:
        field (django.db.models.Field):
            The field that relations must point to.

    Yields:
        django.db.models.Field or object:
        Each field or relation object pointing to this field.

        The type of the relation object depends on the version of Django.
    """
    is_primary_key = field.primary_key
    field_name = field.name

    for rel in iter_model_fields(field.model,
                                 include_parent_models=True,
                                 include_forward_fields=False,
                                 include_reverse_fields=True,
                                 include_hidden_fields=True):
        rel_from_field = rel.field

        # Exclude any ManyToManyFields, and make sure the referencing fields
        # point directly to the ID on this field.
        if (not get_field_is_many_to_many(rel_from_field) and
            ((is_primary_key and rel_from_field.to_fields == [None]) or
             field_name in rel_from_field.to_fields)):
            yield rel

            # Now do the same for the fields on the model of the related field.
            other_rel_fields = iter_non_m2m_reverse_relations(
                get_remote_field(rel))

            for rel2 in other_rel_fields:
                yield rel2
