"""Dependency graphs for tracking and ordering evolutions and migrations.

Version Added:
    2.1
"""

from __future__ import unicode_literals

from django_evolution.compat import six
from django_evolution.compat.models import get_model_name
from django_evolution.errors import EvolutionException
from django_evolution.models import Evolution
from django_evolution.support import supports_migrations
from django_evolution.utils.apps import get_app_label
from django_evolution.utils.evolutions import (get_evolution_app_dependencies,
                                               get_evolution_dependencies)
from django_evolution.utils.migrations import Migration


class NodeNotFoundError(Exception):
    """A requested node could not be found.

    Version Added:
        2.1
    """

    def __init__(self, key):
        """Initialize the error.

        Args:
            key (unicode):
                The key corresponding to the missing node.
        """
        super(NodeNotFoundError, self).__init__(
            'A graph node with key "%s" was not found.'
            % key)


class Node(object):
    """A node in a graph.

    Each node is associated with a key, and tracks caller-provided state,
    dependency relations (in both directions), and an insertion order (for
    loose sorting).

    Version Added:
        2.1

    Attributes:
        dependencies (set of Node):
            Any other nodes that this node depends on.

        insert_index (int):
            An index defining when this was added to the graph, relative to
            other nodes.

        key (unicode):
            The key identifying this node.

        required_by (set of Node):
            Any other nodes that have this node as a dependency.

        state (dict):
            Tracked state provided by the caller.
    """

    def __init__(self, key, insert_index, state):
        """Initialize the node.

        Args:
            key (unicode):
                The key identifying this node.

            insert_index (int):
                An index defining when this was added to the graph, relative to
                other nodes.

            state (dict):
                Tracked state provided by the caller.
        """
        self.key = key
        self.insert_index = insert_index
        self.dependencies = set()
        self.required_by = set()
        self.state = state

    def __hash__(self):
        """Return a hash of this node.

        The hash will be based on the key.

        Returns:
            int:
            The hash for this node.
        """
        return hash(self.key)

    def __repr__(self):
        """Return a string representation of this node.

        Returns:
            unicode:
            The string representation.
        """
        return '<Node: %s>' % self.key


class DependencyGraph(object):
    """A graph tracking dependencies between nodes.

    This is used to model relations between objects, indicating which nodes
    require which, or are required by others, and then providing a sorted
    order based on those relations.

    Dependencies can be added at any time, and are only applied once the graph
    is finalized. This allows nodes to be added after a dependency referring
    to them is added.

    Version Added:
        2.1
    """

    def __init__(self):
        """Initialize the graph."""
        self._finalized = False
        self._nodes = {}
        self._pending_deps = set()

    def add_node(self, key, state={}):
        """Add a node to the graph.

        A node can only be added if the graph has not been finalized and if
        the key has not already been recorded.

        Args:
            key (unicode):
                The key uniquely identifying this node.

            state (dict, optional):
                State to add to the node.

        Returns:
            Node:
            The resulting node.
        """
        assert not self._finalized
        assert key not in self._nodes, \
            '"%s" is already a registered node' % key

        node = Node(key=key,
                    state=state,
                    insert_index=len(self._nodes))
        self._nodes[key] = node

        return node

    def add_dependency(self, node_key, dep_node_key):
        """Add a dependency between two nodes.

        This will be recorded as a pending dependency and later applied to
        the nodes when calling :py:meth:`finalize`.

        Args:
            node_key (unicode):
                The key of the node that depends on another node.

            dep_node_key (unicode):
                The key of the node that ``node_key`` depends on.
        """
        assert not self._finalized
        assert isinstance(node_key, six.text_type)
        assert isinstance(dep_node_key, six.text_type)

        self._pending_deps.add((node_key, dep_node_key))

    def remove_dependencies(self, node_keys):
        """Remove any pending dependencies referencing one or more keys.

        Args:
            node_keys (set):
                A set of node keys that should be removed from pending
                dependencies.
        """
        assert not self._finalized

        if not isinstance(node_keys, set):
            node_keys = set(node_keys)

        self._pending_deps -= set(
            dep
            for dep in self._pending_deps
            if dep[0] in node_keys or dep[1] in node_keys
        )

    def finalize(self):
        """Finalize the graph.

        This will apply any dependencies and then mark the graph as finalized.
        At this point, orders can be computed, but no new nodes or dependencies
        can be added.
        """
        assert not self._finalized

        for node_key, dep_node_key in self._pending_deps:
            assert node_key in self._nodes, (
                '"%s" was not found (requires dependency "%s")'
                % (node_key, dep_node_key))
            assert dep_node_key in self._nodes, (
                '"%s" was not found (required by "%s")'
                % (dep_node_key, node_key))

            node = self._nodes[node_key]
            dep_node = self._nodes[dep_node_key]

            node.dependencies.add(dep_node)
            dep_node.required_by.add(node)

        self._pending_deps = []
        self._finalized = True

    def get_node(self, key):
        """Return a node with a corresponding key.

        Args:
            key (unicode):
                The key associated with the node.

        Returns:
            Node:
            The resulting node.

        Raises:
            NodeNotFoundError:
                The node could not be found.
        """
        try:
            return self._nodes[key]
        except KeyError:
            raise NodeNotFoundError(key)

    def get_leaf_nodes(self):
        """Return all leaf nodes on the graph.

        Leaf nodes are nodes that nothing depends on. These are generally the
        last evolutions/migrations in any branch of the tree to apply.

        Returns:
            list of Node:
            The list of leaf nodes, sorted by their insertion index.
        """
        assert self._finalized

        return sorted(
            [
                node
                for node in six.itervalues(self._nodes)
                if not node.required_by
            ],
            key=lambda node: node.insert_index)

    def get_ordered(self):
        """Return all nodes in dependency order.

        This will perform a topological sort on the graph, returning nodes in
        the order they should be processed in.

        The graph must be finalized before this is called.

        Returns:
            list of Node:
            The list of ndoes, in dependency order.
        """
        assert self._finalized

        result = []
        result_set = set()

        # Loop through each leaf node, walking up the tree to find any
        # dependencies to add to the stack.
        #
        # As the dependency tree can be quite large, we're tracking this in
        # a stack instead of recursing.
        #
        # We process each leaf node individually, with its own stack. The
        # results from each round of processing are combined into a single
        # list.
        #
        # We're using the same general algorithm/approach as Django's
        # MigrationGraph, for compatibility.
        for leaf_node in self.get_leaf_nodes():
            stack = [leaf_node]
            visited = set()
            processed = set()

            while stack:
                node = stack.pop()

                if node not in visited:
                    # We haven't fully completed this branch of the tree yet.
                    # Figure out what we need to do with this node.
                    if node in processed:
                        # We've already popped this node in the stack before
                        # and went through its dependencies. We're now ready to
                        # add it to the result, if it's not already there.
                        visited.add(node)

                        if node not in result_set:
                            result.append(node)
                            result_set.add(node)
                    else:
                        # Add this node back to the stack, and then its
                        # dependencies. We'll be processing the dependencies
                        # next and then working our way back to this node.
                        #
                        # We'll mark that we've processed this, so we don't
                        # re-scan the dependencies again.
                        stack.append(node)
                        processed.add(node)

                        for dep in sorted(node.dependencies,
                                          key=lambda dep: dep.insert_index,
                                          reverse=True):
                            if dep in processed and dep not in visited:
                                # This dependency is still waiting on its
                                # own dependencies, which means it's one of
                                # this node's ancestors in the walk. These
                                # requirements can't all be satisfied.
                                raise EvolutionException(
                                    'A circular dependency was found: "%s" '
                                    'and "%s" each (directly or indirectly) '
                                    'require the other to be applied first.'
                                    % (node.key, dep.key))

                            stack.append(dep)

        if len(result) != len(self._nodes):
            # Every node in a graph without cycles is reachable from a leaf
            # node. Anything left over is part of a cycle.
            raise EvolutionException(
                'A circular dependency was found between: %s'
                % ', '.join(
                    '"%s"' % node.key
                    for node in sorted(six.itervalues(self._nodes),
                                       key=lambda node: node.insert_index)
                    if node not in result_set
                ))

        return result


class EvolutionGraph(DependencyGraph):
    """A graph tracking dependencies between migrations and evolutions.

    This is used to model the relationships between all configured migrations
    and evolutions, and to generate batches of consecutive migrations or
    evolutions that can be applied at once.

    Dependencies can be added at any time, and are only applied once the graph
    is finalized. This allows nodes to be added after a dependency referring
    to them is added.

    Version Added:
        2.1
    """

    #: An anchor node.
    #:
    #: These are internal, and are used for clustered dependency management.
    NODE_TYPE_ANCHOR = 'anchor'

    #: A node that results in model creation.
    NODE_TYPE_CREATE_MODEL = 'create-model'

    #: A node that results in applying a single evolution.
    NODE_TYPE_EVOLUTION = 'evolution'

    #: A node that results in applying a single migration.
    NODE_TYPE_MIGRATION = 'migration'

    def __init__(self, *args, **kwargs):
        """Initialize the graph.

        Args:
            *args (tuple):
                Positional arguments for the parent.

            **kwargs (dict):
                Keyword arguments for the parent.
        """
        super(EvolutionGraph, self).__init__(*args, **kwargs)

        self.process_evolution_deps = True
        self.process_migration_deps = supports_migrations

        self._app_evolution_nodes = {}

    def add_evolutions(self, app, evolutions=[], new_models=[],
                       extra_state={}, custom_evolutions=[]):
        """Add a list of evolutions for a given app.

        Each evolution will gets its own node, and pending dependencies will
        be recorded to ensure the evolutions are applied in the correct order.

        A special ``__first__`` anchor node will be added before the sequence
        of evolutions, and a ``__last__`` node will be added after. This allows
        evolutions to easily reference another app's list of evolutions
        relative to the start or end of a list. It's used only internally.

        Version Changed:
            2.2:
            A ``custom_evolutions`` argument can now be provided, for
            dependency resolution purposes.

        Args:
            app (module):
                The app module the evolutions apply to.

            evolutions (list of django_evolution.models.Evolution, optional):
                The list of evolutions to add to the graph. This may be an
                empty list if there are no evolutions but there are new
                models to create.

            new_models (list of type, optional):
                The list of database model classes to create for the app.

            extra_state (dict, optional):
                Extra state to set in each evolution node.

            custom_evolutions (list of dict, optional):
                An optional list of custom evolutions for the app, for
                dependency resolution.

                Version Added:
                    2.2
        """
        app_label = get_app_label(app)
        app_deps = get_evolution_app_dependencies(app)

        nodes = []

        # Add the leading anchor node.
        node = self.add_node(
            key='evolution:%s:__first__' % app_label,
            state={
                'anchor': True,
                'app': app,
            })
        prev_node = node

        if app_deps:
            self._add_evolution_node_after_deps(node, app_deps)

        # If we're creating models, add nodes for that.
        for model in new_models:
            node = self._add_create_model(app=app,
                                          model=model,
                                          extra_state=extra_state)
            self.add_dependency(node_key=node.key,
                                dep_node_key=prev_node.key)

            nodes.append(node)
            prev_node = node

        # Add a node for each evolution.
        for evolution in evolutions:
            node = self._add_evolution(app=app,
                                       evolution=evolution,
                                       extra_state=extra_state,
                                       custom_evolutions=custom_evolutions)
            self.add_dependency(node_key=node.key,
                                dep_node_key=prev_node.key)

            nodes.append(node)
            prev_node = node

        # Add the trailing anchor node.
        node = self.add_node(
            key='evolution:%s:__last__' % app_label,
            state={
                'anchor': True,
                'app': app,
            })
        self.add_dependency(node_key=node.key,
                            dep_node_key=prev_node.key)

        if app_deps:
            self._add_evolution_node_before_deps(node, app_deps)

        self._app_evolution_nodes.setdefault(app, []).extend(nodes)

    def add_migration_plan(self, migration_plan, migration_graph):
        """Add a migration plan to the graph.

        Each migration in the plan will gets its own node, and pending
        dependencies will be recorded to ensure the migrations are applied in
        the order already computed for the plan.

        Args:
            migration_plan (list of tuple):
                The computed migration plan to add to the graph.

            migration_graph (django.db.migrations.graph.MigrationGraph):
                The computed migration graph, used to reference computed
                dependencies.
        """
        assert supports_migrations

        has_node_map = hasattr(migration_graph, 'node_map')

        for plan_item in migration_plan:
            node = self._add_migration_plan_item(plan_item)
            migration_target = node.state['migration_target']

            if has_node_map:
                # Django >= 1.8
                parents = migration_graph.node_map[migration_target].parents
                deps = (
                    migration_graph.nodes[dep_node.key]
                    for dep_node in parents
                )
            else:
                # Django == 1.7
                deps = migration_graph.dependencies.get(migration_target, [])

            for dep in deps:
                self.add_dependency(node_key=node.key,
                                    dep_node_key=self._make_migration_key(dep))

    def mark_evolutions_applied(self, app, evolution_labels):
        """Mark one or more evolutions as applied.

        This will remove any pending dependencies referencing these evolutions
        from the graph.

        Args:
            app (module):
                The app module the evolutions apply to.

            evolution_labels (list of unicode):
                The list of evolutions labels to mark as applied.
        """
        app_label = get_app_label(app)

        if app not in self._app_evolution_nodes:
            # There aren't any evolution nodes for this app, so let's also
            # get rid of any dependencies to the anchors.
            evolution_labels += ['__first__', '__last__']

        self.remove_dependencies({
            self._make_evolution_key((app_label, evolution_label))
            for evolution_label in evolution_labels
        })

    def mark_migrations_applied(self, migrations):
        """Mark one or more migrations as applied.

        This will remove any pending dependencies referencing these migrations
        from the graph.

        Args:
            migrations (django_evolution.utils.migrations.MigrationList):
                The list of migrations to mark as applied.
        """
        self.remove_dependencies(set(
            self._make_migration_key(migration_target)
            for migration_target in migrations.to_targets()
        ))

    def iter_batches(self):
        """Iterate through batches of consecutive evolutions and migrations.

        The nodes will be iterated in dependency order, with each batch
        containing a sequence of either evolutions or migrations that can be
        applied at once.

        Yields:
            tuple:
            A 2-tuple containing:

            1. The batch type (one of :py:attr:`NODE_TYPE_CREATE_MODEL`,
               :py:attr:`NODE_TYPE_EVOLUTION`, or
               :py:attr:`NODE_TYPE_MIGRATION`).
            2. A list of :py:class:`Node` instances.
        """
        batch_nodes = []
        batch_type = None

        for node in self.get_ordered():
            if node.state.get('anchor'):
                continue

            node_type = node.state['type']

            if node_type != batch_type:
                if batch_nodes:
                    yield batch_type, batch_nodes

                batch_nodes = []
                batch_type = node_type

            batch_nodes.append(node)

        if batch_nodes:
            yield batch_type, batch_nodes

    def _add_create_model(self, app, model, extra_state={}):
        """Add a node for creating a model.

        Args:
            app (module):
                The app module the evolution applies to.

            model (type):
                The model class to create.

            extra_state (dict, optional):
                Extra state to set in the evolution node.

        Returns:
            Node:
            The resulting node.
        """
        key = self._make_create_model_key(get_app_label(app), model)
        node = self.add_node(
            key=key,
            state=dict({
                'app': app,
                'model': model,
                'type': self.NODE_TYPE_CREATE_MODEL,
            }, **extra_state))

        return node

    def _add_evolution(self, app, evolution, extra_state={},
                       custom_evolutions=[]):
        """Add a node for an evolution.

        Node dependencies will be registered based on any evolution/migration
        dependencies defined by this evolution.

        Args:
            app (module):
                The app module the evolution applies to.

            evolution (django_evolution.models.Evolution):
                The evolution to add.

            extra_state (dict, optional):
                Extra state to set in the evolution node.

            custom_evolutions (list of dict, optional):
                An optional list of custom evolutions for the app, for
                dependency resolution.

                Version Added:
                    2.2

        Returns:
            Node:
            The resulting node.
        """
        key = self._make_evolution_key(evolution)
        node = self.add_node(
            key=key,
            state=dict({
                'app': app,
                'evolution': evolution,
                'type': self.NODE_TYPE_EVOLUTION,
            }, **extra_state))

        # Begin adding any dependencies between this evolution and any other
        # evolution or migration.
        deps = get_evolution_dependencies(app=app,
                                          evolution_label=evolution.label,
                                          custom_evolutions=custom_evolutions)

        if deps:
            self._add_evolution_node_before_deps(node, deps)
            self._add_evolution_node_after_deps(node, deps)

        return node

    def _add_evolution_node_before_deps(self, node, deps):
        """Add dependencies on evolutions/migrations to process before a node.

        Any dependencies in ``before_evolutions`` or ``before_migrations``
        will be registered in the graph.

        Args:
            node (Node):
                The graph node to add dependencies relative to.

            deps (dict):
                The dependencies owned by the evolution backed by this node.
        """
        # Add dependencies for any evolutions/migrations that this should
        # come before.
        key = node.key

        if self.process_evolution_deps:
            for evolution_target in deps['before_evolutions']:
                if isinstance(evolution_target, six.text_type):
                    # If only an app name is specified, then the special
                    # __first__ anchor node for the app will depend on this
                    # node.
                    evolution_target = (evolution_target, '__first__')

                self.add_dependency(
                    node_key=self._make_evolution_key(evolution_target),
                    dep_node_key=key)

        if self.process_migration_deps:
            for migration_target in deps['before_migrations']:
                self.add_dependency(
                    node_key=self._make_migration_key(migration_target),
                    dep_node_key=key)

    def _add_evolution_node_after_deps(self, node, deps):
        """Add dependencies on evolutions/migrations to process after a node.

        Any dependencies in ``after_evolutions`` or ``after_migrations``
        will be registered in the graph.

        Args:
            node (Node):
                The graph node to add dependencies relative to.

            deps (dict):
                The dependencies owned by the evolution backed by this node.
        """
        # Add dependencies for any evolutions/migrations that this should
        # come after.
        key = node.key

        if self.process_evolution_deps:
            for evolution_target in deps.get('after_evolutions', []):
                if isinstance(evolution_target, six.text_type):
                    # If only an app name is specified, then depend on the
                    # special __first__ anchor node for the app.
                    evolution_target = (evolution_target, '__last__')

                self.add_dependency(
                    node_key=key,
                    dep_node_key=self._make_evolution_key(evolution_target))

        if self.process_migration_deps:
            for migration_target in deps.get('after_migrations', []):
                self.add_dependency(
                    node_key=key,
                    dep_node_key=self._make_migration_key(migration_target))

    def _add_migration_plan_item(self, plan_item):
        """Add an item from a migration plan.

        Args:
            plan_item (tuple):
                The item from a migration plan to add.

        Returns:
            Node:
            The resulting node.
        """
        migration = plan_item[0]

        return self.add_node(
            key=self._make_migration_key(migration),
            state={
                'migration_plan_item': plan_item,
                'migration_target': (migration.app_label, migration.name),
                'type': self.NODE_TYPE_MIGRATION,
            })

    def _make_create_model_key(self, app_label, model):
        """Return a key representing a model to create.

        The key will uniquely identify the node for a model to create in the
        graph.

        Args:
            app_label (unicode):
                The app label that owns the model.

            model (django.db.models.Model):
                The model the key will represent.

        Returns:
            unicode:
            The key for the create model node.
        """
        return 'create-model:%s:%s' % (app_label, get_model_name(model))

    def _make_evolution_key(self, evolution):
        """Return a key representing an evolution.

        The key will uniquely identify the node for an evolution in the graph.
        It supports either an evolution or a tuple identifying one.

        Args:
            evolution (tuple or django_evolution.models.Evolution):
                The identifier for an evolution.

                For a tuple, this needs to be in
                ``(app_label, evolution_label)`` form.

        Returns:
            unicode:
            The key for the evolution node.

        Raises:
            TypeError:
                An invalid type was passed for ``evolution``.
        """
        if isinstance(evolution, tuple):
            assert len(evolution) == 2

            app_label, label = evolution
        elif isinstance(evolution, Evolution):
            app_label = evolution.app_label
            label = evolution.label
        else:
            raise TypeError('Invalid type %s: %s' % (type(evolution),
                                                     evolution))

        return 'evolution:%s:%s' % (app_label, label)

    def _make_migration_key(self, migration):
        """Return a key representing a migration.

        The key will uniquely identify the node for an migration in the graph.
        It supports either a migration or a tuple identifying one.

        Args:
            evolution (tuple or django.db.migrations.migration.Migration):
                The identifier for a migration.

                For a tuple, this needs to be in
                ``(app_label, migration_name)`` form.

        Returns:
            unicode:
            The key for the migration node.

        Raises:
            TypeError:
                An invalid type was passed for ``migration``.
        """
        if isinstance(migration, tuple):
            app_label, name = migration
        elif isinstance(migration, Migration):
            app_label = migration.app_label
            name = migration.name
        else:
            raise TypeError('Invalid type %s: %s' % (type(migration),
                                                     migration))

        return 'migration:%s:%s' % (app_label, name)
