"""Utility functions for working with Django Migrations."""

from __future__ import unicode_literals

from importlib import import_module

import django

try:
    # Django >= 1.7
    from django.core.management.sql import (emit_post_migrate_signal,
                                            emit_pre_migrate_signal)
    from django.db.migrations import Migration
    from django.db.migrations.executor import (MigrationExecutor as
                                               DjangoMigrationExecutor)
    from django.db.migrations.loader import (MigrationLoader as
                                             DjangoMigrationLoader)
    from django.db.migrations.recorder import MigrationRecorder
    from django.db.migrations.state import ModelState

    emit_post_sync_signal = None
    emit_pre_sync_signal = None
except ImportError:
    # Django < 1.7
    from django.core.management.sql import (emit_post_sync_signal,
                                            emit_pre_sync_signal)

    DjangoMigrationExecutor = object
    DjangoMigrationLoader = object
    Migration = None
    MigrationRecorder = None
    ModelState = None
    emit_post_migrate_signal = None
    emit_pre_migrate_signal = None

from django_evolution.compat import six
from django_evolution.compat.models import get_model
from django_evolution.errors import (DjangoEvolutionSupportError,
                                     MigrationConflictsError,
                                     MigrationHistoryError)
from django_evolution.signals import applied_migration, applying_migration
from django_evolution.support import supports_migrations
from django_evolution.utils.apps import get_app_name


django_version = django.VERSION[:2]


#: A list of all globally-registered custom migrations.
#:
#: These migrations may not exist on disk. This is primarily useful for
#: unit testing.
#:
#: This list is managed by :py:func:`register_global_custom_migrations` and
#: :py:func:`clear_global_custom_migrations`.
#:
#: Version Added:
#:     2.2
#:
#: Type:
#:     MigrationList
_global_custom_migrations = None


class MigrationList(object):
    """A list of applied or pending migrations.

    This is used to manage a list of migrations in a way that's independent
    from the underlying representation used in Django. Migrations are tracked
    by app label and name, may be associated with a recorded migration
    database entry, and can be used to convert state to and from both
    signatures and Django migration state.
    """

    @classmethod
    def from_app_sig(cls, app_sig):
        """Create a MigrationList based on an app signature.

        Args:
            app_sig (django_evolution.signature.AppSignature):
                The app signature containing a list of applied migrations.

        Returns:
            MigrationList:
            The new migration list.
        """
        return cls.from_names(app_label=app_sig.app_id,
                              migration_names=app_sig.applied_migrations)

    @classmethod
    def from_names(cls, app_label, migration_names):
        """Create a MigrationList based on a list of migration names.

        Version Added:
            2.1

        Args:
            app_label (unicode):
                The app label common to each migration name.

            migration_names (list of unicode):
                The list of migration names.

        Returns:
            MigrationList:
            The new migration list.
        """
        migration_list = cls()

        if migration_names:
            for name in migration_names:
                migration_list.add_migration_info(app_label=app_label,
                                                  name=name)

        return migration_list

    @classmethod
    def from_database(cls, connection, app_label=None):
        """Create a MigrationList based on recorded migrations.

        Args:
            connection (django.db.backends.base.BaseDatabaseWrapper):
                The database connection used to query for migrations.

            app_label (unicode, optional):
                An app label to filter migrations by.

        Returns:
            MigrationList:
            The new migration list.
        """
        recorder = MigrationRecorder(connection)
        migration_list = cls()

        if not recorder.has_table():
            # Nothing has been recorded yet. This is only a lookup, so don't
            # create the table just to find out that it's empty. Anything
            # that records migrations will create it when needed.
            return migration_list

        queryset = recorder.migration_qs

        if app_label:
            queryset = queryset.filter(app=app_label)

        for recorded_migration in queryset.all():
            migration_list.add_recorded_migration(recorded_migration)

        return migration_list

    def __init__(self):
        """Initialize the list."""
        self._by_app_label = {}
        self._by_id = {}

    def has_migration_info(self, app_label, name):
        """Return whether the list contains an entry for a migration.

        Args:
            app_label (unicode):
                The label for the application that was migrated.

            name (unicode):
                The name of the migration.

        Returns:
            bool:
            ``True`` if the migration is in the list. ``False`` if it is not.
        """
        return (app_label, name) in self._by_id

    def add_migration_targets(self, targets):
        """Add a list of migration targets to the list.

        Args:
            targets (list of tuple):
                The migration targets to each. Each is a tuple containing
                an app label and a migration name.
        """
        for app_label, name in targets:
            self.add_migration_info(app_label=app_label,
                                    name=name)

    def add_migration(self, migration):
        """Add a migration to the list.

        This can only be called on Django 1.7 or higher.

        Args:
            migration (django.db.migrations.Migration):
                The migration instance to add.
        """
        assert Migration is not None
        assert isinstance(migration, Migration)

        self.add_migration_info(app_label=migration.app_label,
                                name=migration.name,
                                migration=migration)

    def add_recorded_migration(self, recorded_migration):
        """Add a recorded migration to the list.

        This can only be called on Django 1.7 or higher.

        Args:
            recorded_migration (django.db.migrations.recorder.
                                MigrationRecorder.Migration):
                The recorded migration model to add.
        """
        assert MigrationRecorder is not None
        assert isinstance(recorded_migration, MigrationRecorder.Migration)

        self.add_migration_info(app_label=recorded_migration.app,
                                name=recorded_migration.name,
                                recorded_migration=recorded_migration)

    def add_migration_info(self, app_label, name, migration=None,
                           recorded_migration=None):
        """Add information on a migration to the list.

        Args:
            app_label (unicode):
                The label for the application that was migrated.

            name (unicode):
                The name of the migration.

            migration (django.db.migrations.Migration, optional):
                An optional migration instance to associate with this entry.

            recorded_migration (django.db.migrations.recorder.
                                MigrationRecorder.Migration, optional):
                An optional recorded migration to associate with this entry.
        """
        info = {
            'app_label': app_label,
            'migration': migration,
            'name': name,
            'recorded_migration': recorded_migration,
        }

        self._by_app_label.setdefault(app_label, []).append(info)
        self._by_id[(app_label, name)] = info

    def update(self, other):
        """Update the list with the contents of another list.

        If there's an entry in another list matching this one, and contains
        information that the entry in this list does not have, this list's
        entry will be updated.

        Args:
            other (MigrationList):
                The list of migrations to put into this list.
        """
        for other_info in other:
            app_label = other_info['app_label']
            name = other_info['name']
            info = self._by_id.get((app_label, name))

            if info is None:
                self.add_migration_info(app_label=app_label,
                                        name=name)
            else:
                for key in ('migration', 'recorded_migration'):
                    if info[key] is None:
                        info[key] = other_info[key]

    def to_targets(self):
        """Return a set of migration targets based on this list.

        Returns:
            set:
            A set of migration targets. Each entry is a tuple containing
            the app label and name.
        """
        return set(
            (info['app_label'], info['name'])
            for info in self
        )

    def get_app_labels(self):
        """Iterate through the app labels.

        Results are sorted alphabetically.

        Returns:
            list of unicode:
            The sorted list of app labels with associated migrations.
        """
        return list(sorted(six.iterkeys(self._by_app_label)))

    def clone(self):
        """Clone the list.

        Returns:
            MigrationList:
            The cloned migration list.
        """
        new_migration_list = MigrationList()

        for info in self:
            new_migration_list.add_migration_info(**info)

        return new_migration_list

    def __bool__(self):
        """Return whether this list is truthy or falsy.

        The list is truthy only if it has items.

        Returns:
            bool:
            ``True`` if the list has items. ``False`` if it's empty.
        """
        return bool(self._by_id)

    def __len__(self):
        """Return the number of items in the list.

        Returns:
            int:
            The number of items in the list.
        """
        return len(self._by_id)

    def __eq__(self, other):
        """Return whether this list is equal to another list.

        The order of migrations is ignored when comparing lists.

        Args:
            other (MigrationList):
                A list of migrations to compare to.

        Returns:
            bool:
            ``True`` if the two lists have the same contents. ``False`` if
            there are differences in contents, or ``other`` is not a
            :py:class:`MigrationList`.
        """
        if other is None or not isinstance(other, MigrationList):
            return False

        return self._by_id == other._by_id

    def __iter__(self):
        """Iterate through the list.

        Entries are sorted first by app label, alphabetically, and then
        the order in which migrations were added for that app label.

        Yields:
            info:
            A dictionary containing the following keys:

            ``app_label`` (:py:class:`unicode`):
                The app label for the migration.

            ``name`` (:py:class:`unicode`):
                The name of the migration.

            ``migration`` (:py:class:`django.db.migrations.Migration`):
                The optional migration instance.

            ``recorded_migration`` (:py:class:`django.db.migrations.recorder.MigrationRecorder.Migration`):
                The optional recorded migration.
        """
        for app_label, info_list in sorted(six.iteritems(self._by_app_label),
                                           key=lambda pair: pair[0]):
            for info in info_list:
                yield info

    def __add__(self, other):
        """Return a combined copy of this list and another list.

        Args:
            other (MigrationList):
                The other list to add to this list.

        Returns:
            MigrationList:
            The new migration list containing contents of both lists.
        """
        new_migration_list = self.clone()
        new_migration_list.update(other)

        return new_migration_list

    def __sub__(self, other):
        """Return a copy of this list with another list's contents excluded.

        Args:
            other (MigrationList):
                The other list containing contents to exclude.

        Returns:
            MigrationList:
            The new migration list containing the contents of this list that
            don't exist in the other list.
        """
        new_migration_list = MigrationList()

        for info in self:
            if not other.has_migration_info(app_label=info['app_label'],
                                            name=info['name']):
                new_migration_list.add_migration_info(**info)

        return new_migration_list

    def __repr__(self):
        """Return a string representation of this list.

        Returns:
            unicode:
            The string representation.
        """
        return '<MigrationList%s>' % list(self)


class MigrationLoader(DjangoMigrationLoader):
    """Loads migration files from disk.

    This is a specialization of Django's own
    :py:class:`~django.db.migrations.loader.MigrationLoader` that allows for
    providing additional migrations not available on disk.

    Attributes:
        extra_applied_migrations (MigrationList):
            Migrations to mark as already applied. This can be used to
            augment the results calculated from the database.
    """

    def __init__(self, connection, custom_migrations=None, *args, **kwargs):
        """Initialize the loader.

        Args:
            connection (django.db.backends.base.BaseDatabaseWrapper):
                The connection to load applied migrations from.

            custom_migrations (MigrationList, optional):
                Custom migrations not available on disk.

            *args (tuple):
                Additional positional arguments for the parent class.

            **kwargs (dict):
                Additional keyword arguments for the parent class.
        """
        self._custom_migrations = custom_migrations or MigrationList()
        self._applied_migrations = None
        self._lock_migrations = False

        self.extra_applied_migrations = MigrationList()

        super(MigrationLoader, self).__init__(connection, *args, **kwargs)

    @property
    def applied_migrations(self):
        """The migrations already applied.

        This will contain both the migrations applied from the database
        and any set in :py:attr:`extra_applied_migrations`.
        """
        extra_migrations = self.extra_applied_migrations

        if isinstance(self._applied_migrations, dict):
            # Django >= 3.0
            applied_migrations = self._applied_migrations.copy()

            for info in extra_migrations:
                app_label = info['app_label']
                name = info['name']
                recorded_migration = info['recorded_migration']

                if recorded_migration is None:
                    recorded_migration = MigrationRecorder.Migration(
                        app=app_label,
                        name=name,
                        applied=True)

                applied_migrations[(app_label, name)] = recorded_migration

        elif isinstance(self._applied_migrations, set):
            # Django < 3.0
            applied_migrations = self._applied_migrations | set(
                (info['app_label'], info['name'])
                for info in extra_migrations
            )
        else:
            raise DjangoEvolutionSupportError(
                'Migration.applied_migrations is an unexpected type (%s)'
                % type(self._applied_migrations))

        return applied_migrations

    @applied_migrations.setter
    def applied_migrations(self, value):
        """Set the migrations already applied.

        Args:
            value (set of tuple):
                The migrations already applied to the database.
        """
        if value is not None and not isinstance(value, (dict, set)):
            raise DjangoEvolutionSupportError(
                'Migration.applied_migrations was set to an unexpected type '
                '(%s)'
                % type(value))

        if value is None:
            self._applied_migrations = None
        else:
            if django_version >= (3, 0):
                self._applied_migrations = dict(value)
            else:
                self._applied_migrations = value

    def build_graph(self, reload_migrations=True):
        """Rebuild the migrations graph.

        Args:
            reload_migrations (bool, optional):
                Whether to reload migration instances from disk. If ``False``,
                the ones loaded before will be used.
        """
        if not reload_migrations:
            self._lock_migrations = True

        try:
            super(MigrationLoader, self).build_graph()
        finally:
            self._lock_migrations = False

    def load_disk(self):
        """Load migrations from disk.

        This will also load any custom migrations.
        """
        if self._lock_migrations:
            return

        super(MigrationLoader, self).load_disk()

        for info in self._custom_migrations:
            migration = info['migration']
            assert migration is not None

            app_label = info['app_label']
            name = info['name']

            self.migrated_apps.add(app_label)
            self.unmigrated_apps.discard(app_label)
            self.disk_migrations[(app_label, name)] = migration


class MigrationExecutor(DjangoMigrationExecutor):
    """Load and execute migrations.

    This is a specialization of Django's own
    :py:class:`~django.db.migrations.executor.MigrationExecutor` that allows
    for providing additional migrations not available on disk, and for
    emitting our own signals when processing migrations.
    """

    def __init__(self, connection, custom_migrations=None, signal_sender=None):
        """Initialize the executor.

        Version Changed:
            2.2:
            ``custom_migrations`` now defaults to any globally-registered
            custom migrations set in
            :py:func:`register_global_custom_migrations`.

        Args:
            connection (django.db.backends.base.BaseDatabaseWrapper):
                The connection to load applied migrations from.

            custom_migrations (dict, optional):
                Custom migrations not available on disk. Each key is a tuple
                of ``(app_label, migration_name)``, and each value is a
                migration.

                This defaults to any globally-registered custom migrations.

            signal_sender (object, optional):
                A custom sender to pass when sending signals. This defaults
                to this instance.
        """
        if custom_migrations is None:
            custom_migrations = _global_custom_migrations

        self._signal_sender = signal_sender or self

        super(MigrationExecutor, self).__init__(
            connection=connection,
            progress_callback=self._on_progress)

        # Ideally we would be able to replace this during initialization,
        # or at the very least prevent the default one from loading from
        # disk, but it's not often that these will be constructed, so it's
        # probably fine.
        self.loader = MigrationLoader(connection=connection,
                                      custom_migrations=custom_migrations)

    def run_checks(self):
        """Perform checks on the migrations and any history.

        Raises:
            django_evolution.errors.MigrationConflictsError:
                There are conflicts between migrations loaded from disk.

            django_evolution.errors.MigrationHistoryError:
                There are unapplied dependencies to applied migrations.
        """
        # Make sure that the migration files in the tree form a proper history.
        if hasattr(self.loader, 'check_consistent_history'):
            # Django >= 1.10
            from django.db.migrations.exceptions import \
                InconsistentMigrationHistory

            try:
                self.loader.check_consistent_history(self.connection)
            except InconsistentMigrationHistory as e:
                raise MigrationHistoryError(six.text_type(e))

        # Now check that there aren't any conflicts between any migrations that
        # we may end up working with.
        conflicts = self.loader.detect_conflicts()

        if conflicts:
            raise MigrationConflictsError(conflicts)

    def _on_progress(self, action, migration=None, *args, **kwargs):
        """Handler for progress notifications.

        This will convert certain progress notifications to Django Evolution
        signals.

        Args:
            action (unicode):
                The action reflecting the progress update.

            migration (django.db.migrations.Migration, optional):
                The migration that the progress update applies to. This is
                not provided for all progress updates.

            *args (tuple, unused):
                Additional positional arguments passed for the update.

            **kwargs (dict, unused):
                Additional keyword arguments passed for the update.
        """
        if action == 'apply_start':
            applying_migration.send(sender=self._signal_sender,
                                    migration=migration)
        elif action == 'apply_success':
            applied_migration.send(sender=self._signal_sender,
                                   migration=migration)


def register_global_custom_migrations(custom_migrations):
    """Register a global list of custom migrations.

    These will be used by default when constructing a
    :py:class:`MigrationExecutor`.

    Only one list of custom migrations can be added at a time.

    This is primarily useful for unit testing.

    Version Added:
        2.2

    Args:
        custom_migrations (MigrationList):
            The list of custom migrations.

    Raises:
        AssertionError:
            Custom migrations were already registered.
    """
    global _global_custom_migrations

    assert _global_custom_migrations is None, (
        'register_global_custom_migrations() cannot be called until any '
        'existing migrations are unregistered through '
        'clear_global_custom_migrations()'
    )

    _global_custom_migrations = custom_migrations


def clear_global_custom_migrations():
    """Clear the list of custom migrations.

    Version Added:
        2.2
    """
    global _global_custom_migrations

    _global_custom_migrations = None


def has_migrations_module(app):
    """Return whether an app has a migrations module.

    Args:
        app (module):
            The app module.

    Returns:
        bool:
        ``True`` if the app has a ``migrations`` module. ``False`` if it
        does not.
    """
    app_name = get_app_name(app)

    try:
        import_module('%s.migrations' % app_name)
        return True
    except ImportError:
        return False


def record_applied_migrations(connection, migrations):
    """Record a list of applied migrations to the database.

    This can only be called when on Django 1.7 or higher.

    Args:
        connection (django.db.backends.base.BaseDatabaseWrapper):
            The connection used to record applied migrations.

        migrations (MigrationList):
            The list of migration targets to record as applied.
    """
    assert supports_migrations, \
        'This cannot be called on Django 1.6 or earlier.'

    recorder = MigrationRecorder(connection)
    recorder.ensure_schema()

    recorder.migration_qs.bulk_create(
        recorder.Migration(app=info['app_label'],
                           name=info['name'])
        for info in migrations
    )


def unrecord_applied_migrations(connection, app_label, migration_names=None):
    """Remove the recordings of applied migrations from the database.

    This can only be called when on Django 1.7 or higher.

    Args:
        connection (django.db.backends.base.BaseDatabaseWrapper):
            The connection used to unrecord applied migrations.

        app_label (unicode):
            The app label that the migrations pertain to.

        migration_names (list of unicode, optional):
            The list of migration names to unrecord. If not provided, all
            migrations for the app will be unrecorded.
    """
    assert supports_migrations, \
        'This cannot be called on Django 1.6 or earlier.'

    recorder = MigrationRecorder(connection)
    recorder.ensure_schema()

    queryset = recorder.migration_qs.filter(app=app_label)

    if migration_names:
        queryset = queryset.filter(name__in=migration_names)

    queryset.delete()


def filter_migration_targets(targets, app_labels=None, exclude=None):
    """Filter migration execution targets based on the given criteria.

    Args:
        targets (list of tuple):
            The migration targets to be executed.

        app_labels (set of unicode, optional):
            The app labels to limit the targets to.

        exclude (set, optional):
            Explicit targets to exclude.

    Returns:
        list of tuple:
        The resulting list of migration targets.
    """
    if app_labels is not None:
        if not isinstance(app_labels, set):
            app_labels = set(app_labels)

        targets = (
            target
            for target in targets
            if target[0] in app_labels
        )

    if exclude:
        if not isinstance(exclude, set):
            exclude = set(exclude)

        targets = (
            target
            for target in targets
            if target not in exclude
        )

    return list(targets)


def is_migration_initial(migration):
    """Return whether a migration is an initial migration.

    Initial migrations are those that set up an app or models for the first
    time. Generally, they should be limited to model creations, or to those
    adding fields to a (non-migration-aware) model for the first time. They
    also should not have any dependencies on other migrations within the same
    app.

    An initial migration should be able to be safely soft-applied (in other
    words, ignored if the model already appears to exist in the database).

    Migrations on Django 1.9+ may declare themselves as explicitly initial
    or explicitly not initial.

    Args:
        migration (django.db.migrations.Migration):
            The migration to check.

    Returns:
        bool:
        ``True`` if the migration appears to be an initial migration.
        ``False`` if it does not.
    """
    # NOTE: The general logic here is based on the checks done in
    #       MigrationExecutor.detect_soft_applied.

    # Migration.initial was introduced in Django 1.9.
    initial = getattr(migration, 'initial', None)

    if initial is False:
        return False
    elif initial is None:
        # If the migration has any dependencies within the same app, it can't
        # be initial.
        for dep_app_label, dep_app_name in migration.dependencies:
            if dep_app_label == migration.app_label:
                return False

    return True


def create_pre_migrate_state(executor):
    """Create state needed before migrations are applied.

    The return value is dependent on the version of Django.

    Args:
        executor (django.db.migrations.executor.MigrationExecutor):
            The migration executor that will handle the migrations.

    Returns:
        django.db.migrations.state.ProjectState:
        The state needed for applying migrations.
    """
    assert supports_migrations, \
        'This cannot be called on Django 1.6 or earlier.'

    if django_version >= (1, 10):
        # Unfortunately, we have to call into a private method here, just as
        # the migrate command does. Ideally, this would be official API.
        return executor._create_project_state(with_applied_migrations=True)

    return None


def apply_migrations(executor, targets, plan, pre_migrate_state):
    """Apply migrations to the database.

    Migrations will be applied using the ``fake_initial`` mode, which means
    that any initial migrations (those constructing the models for an app)
    will be skipped if the models already appear in the database. This is to
    avoid issues with applying those migrations when the models have already
    been created in the past outside of Django's Migrations framework. In
    theory, this could cause some issues if those migrations also perform
    other important operations around data population, but this is really up
    to Django to handle, as this is part of the upgrade method when going
    from pre-1.7 to 1.7+ anyway.

    This can only be called when on Django 1.7 or higher.

    Args:
        executor (django.db.migrations.executor.MigrationExecutor):
            The migration executor that will handle applying the migrations.

        targets (list of tuple):
            The list of migration targets to apply.

        plan (list of tuple):
            The order in which migrations will be applied.

        pre_migrate_state (object):
            The pre-migration state needed to apply these migrations.
            This must be generated with :py:func:`create_pre_migrate_state`
            or a previous call to :py:func:`apply_migrations`.

    Returns:
        object:
        The state generated from applying migrations. Any final state must
        be passed to :py:func:`finalize_migrations`.
    """
    assert supports_migrations, \
        'This cannot be called on Django 1.6 or earlier.'

    migrate_kwargs = {
        'fake': False,
        'plan': plan,
        'targets': targets,
    }

    # Build version-dependent state needed for the signals and migrate
    # operation.
    if django_version >= (1, 8):
        # Mark any migrations that introduce new models that are already in
        # the database as applied.
        migrate_kwargs['fake_initial'] = True

    if django_version >= (1, 10):
        migrate_kwargs['state'] = pre_migrate_state.clone()

    # Perform the migration and record the result. This only returns a value
    # on Django >= 1.10.
    return executor.migrate(**migrate_kwargs)


def finalize_migrations(post_migrate_state):
    """Finalize any migrations operations.

    This will update any internal state in Django for any migrations that
    were applied and represented by the provided post-migrate state.

    Args:
        post_migrate_state (object):
            The state generated from applying migrations. This must be the
            result of :py:meth:`apply_migrations`.
    """
    assert supports_migrations, \
        'This cannot be called on Django 1.6 or earlier.'

    if django_version >= (1, 10):
        # On Django 1.10, we have a few more steps for generating the state
        # needed for the signal.
        if django_version >= (1, 11):
            post_migrate_state.clear_delayed_apps_cache()

        post_migrate_apps = post_migrate_state.apps
        assert post_migrate_apps is not None

        model_keys = []

        with post_migrate_apps.bulk_update():
            for model_state in post_migrate_apps.real_models:
                model_key = (model_state.app_label, model_state.name_lower)
                model_keys.append(model_key)
                post_migrate_apps.unregister_model(*model_key)

        post_migrate_apps.render_multiple([
            ModelState.from_model(get_model(*model))
            for model in model_keys
        ])


def emit_pre_migrate_or_sync(verbosity, interactive, database_name,
                             create_models, pre_migrate_state, plan):
    """Emit the pre_migrate and/or pre_sync signals.

    This will emit the :py:data:`~django.db.models.signals.pre_migrate`
    and/or :py:data:`~django.db.models.signals.pre_sync` signals, providing
    the appropriate arguments for the current version of Django.

    Args:
        verbosity (int):
            The verbosity level for output.

        interactive (bool):
            Whether handlers of the signal can prompt on the terminal for
            input.

        database_name (unicode):
            The name of the database being migrated.

        create_models (list of django.db.models.Model):
            The list of models being created outside of any migrations.

        pre_migrate_state (django.db.migrations.state.ProjectState):
            The project state prior to any migrations.

        plan (list):
            The full migration plan being applied.
    """
    emit_kwargs = {
        'db': database_name,
        'interactive': interactive,
        'verbosity': verbosity,
    }

    if django_version <= (1, 8):
        emit_kwargs['create_models'] = create_models
    elif django_version >= (1, 10):
        if pre_migrate_state:
            apps = pre_migrate_state.apps
        else:
            apps = None

        emit_kwargs.update({
            'apps': apps,
            'plan': plan,
        })

    if emit_pre_sync_signal:
        emit_pre_sync_signal(**emit_kwargs)
    else:
        emit_pre_migrate_signal(**emit_kwargs)


def emit_post_migrate_or_sync(verbosity, interactive, database_name,
                              created_models, post_migrate_state, plan):
    """Emit the post_migrate and/or post_sync signals.

    This will emit the :py:data:`~django.db.models.signals.post_migrate`
    and/or :py:data:`~django.db.models.signals.post_sync` signals, providing
    the appropriate arguments for the current version of Django.

    Args:
        verbosity (int):
            The verbosity level for output.

        interactive (bool):
            Whether handlers of the signal can prompt on the terminal for
            input.

        database_name (unicode):
            The name of the database that was migrated.

        created_models (list of django.db.models.Model):
            The list of models created outside of any migrations.

        post_migrate_state (django.db.migrations.state.ProjectState):
            The project state after applying migrations.

        plan (list):
            The full migration plan that was applied.
    """
    emit_kwargs = {
        'db': database_name,
        'interactive': interactive,
        'verbosity': verbosity,
    }

    if django_version <= (1, 8):
        emit_kwargs['created_models'] = created_models
    elif django_version >= (1, 10):
        if post_migrate_state:
            apps = post_migrate_state.apps
        else:
            apps = None

        emit_kwargs.update({
            'apps': apps,
            'plan': plan,
        })

    if emit_post_sync_signal:
        emit_post_sync_signal(**emit_kwargs)
    else:
        emit_post_migrate_signal(**emit_kwargs)
