import json, os
P='django_evolution/'
V=[]
def v(id, rule, file, old, new, expect='fire', note='', **kw):
    d=dict(id=id, property='C06', rule=rule, file=P+file, old=old, new=new, expect=expect, note=note); d.update(kw); V.append(d)
G='signature.py'
v('c06-writer-key-renamed','R-C06.1',G,"                'db_table': self.table_name,","                'table_name': self.table_name,",note='written key nobody reads; reader falls back to None')
v('c06-reader-key-renamed','R-C06.1',G,"pk_column=meta_sig_dict.get('pk_column'),","pk_column=meta_sig_dict.get('pk'),")
v('c06-required-conditional','R-C06.1',G,"upgrade_method = app_sig_dict.get('upgrade_method')","upgrade_method = app_sig_dict['upgrade_method']",note='written only if set: KeyError on reload')
v('c06-version-branch-swap','R-C06.1',G,"            if self.attrs:\n                index_sig_dict['attrs'] =","            if self.attrs:\n                index_sig_dict['index_attrs'] =")
v('c06-attr-not-serialised','R-C06.2',G,"                'db_table_comment': self.db_table_comment,\n                'db_tablespace': self.db_tablespace,","                'db_tablespace': self.db_tablespace,",edits=[{'file':P+G,'old':"                'db_table_comment': self.db_table_comment,\n                'db_tablespace': self.db_tablespace,",'new':"                'db_tablespace': self.db_tablespace,"},{'file':P+G,'old':"            db_table_comment=meta_sig_dict.get('db_table_comment'),\n",'new':""}],note='attribute silently dropped from the stored form')
v('c06-param-not-restored','R-C06.2',G,"            unique_together_applied=meta_sig_dict.get(\n                '__unique_together_applied', False))","            )")
v('c06-prefix-mismatch','R-C06.3','models.py',"return 'json!%s' % json.dumps(serialized_data)","return 'json:%s' % json.dumps(serialized_data)")
v('c06-codec-mismatch','R-C06.3','models.py',"                loaded_value = pickle_loads(value)","                loaded_value = json.loads(value)")
v('c06-skip-deserialize','R-C06.3','models.py',"            return ProjectSignature.deserialize(loaded_value)","            return loaded_value")
v('c06-index-tuple-not-normalised','R-C06.4',G,"""                if isinstance(value, tuple):
                    value = list(value)

""","",expect='silent',note='since 13d8fcc __eq__ compares the stored form on both sides, so the shallow conversion in __init__ is no longer needed for equality')
v('c06-eq-raw-compare','R-C06.4',G,"""                (_get_stored_form(self.attrs) ==
                 _get_stored_form(other.attrs)))""","""                dict.__eq__(self.attrs, other.attrs))""",note='the defect fixed in 13d8fcc')
v('c06-serializer-one-way','R-C06.5','serialization.py',"""    def deserialize_from_signature(cls, payload):
        \"\"\"Deserialize dictionary signature data to a value.""","""    def _deserialize_from_signature(cls, payload):
        \"\"\"Deserialize dictionary signature data to a value.""")
v('c06-marker-untested','R-C06.5','serialization.py',"            '_enum': True,","            '_is_enum': True,")
v('c06-marker-exact-type-guard','R-C06.7','serialization.py',"               isinstance(value, dict) and\n               value.get('_enum') is True","               cls is dict and\n               value.get('_enum') is True",note='the defect fixed in c93571f: JSON is loaded into OrderedDicts, the exact-type guard never sees the marker')
v('c06-marker-exact-type-guard2','R-C06.7','serialization.py',"              isinstance(value, dict) and\n              value.get('_deconstructed') is True","              type(value) is dict and\n              value.get('_deconstructed') is True")
v('c06-s-loader-plain-dict','R-C06.7','models.py',"                loaded_value = json.loads(value[len('json!'):],\n                                          object_pairs_hook=OrderedDict)","                loaded_value = json.loads(value[len('json!'):])",expect='silent',note='loader producing plain dicts is accepted by both guards')
v('c06-s-guard-mapping-tuple','R-C06.7','serialization.py',"              isinstance(value, dict) and\n              value.get('_deconstructed') is True","              isinstance(value, (dict, OrderedDict)) and\n              value.get('_deconstructed') is True",expect='silent')
# silent
v('c06-s-local-dict','R-C06.1',G,"        legacy_app_label = app_sig_dict['legacy_app_label']","        data = app_sig_dict\n            legacy_app_label = data['legacy_app_label']",expect='silent',edits=[{'file':P+G,'old':"            legacy_app_label = app_sig_dict['legacy_app_label']",'new':"            data = app_sig_dict\n            legacy_app_label = data['legacy_app_label']"}])
json.dump(V, open(os.path.dirname(os.path.abspath(__file__))+'/variants_c06.json','w'), indent=1)
print(len(V))
