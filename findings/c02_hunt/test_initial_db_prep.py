"""Initial values are bound raw instead of being prepared by the field.

Property: every pre-existing row of a newly added column holds the declared
initial value, and a null-to-non-null change replaces exactly the NULLs with
the declared initial value.

The SQLite rebuild passes ``initial`` straight to the DB-API cursor
(``field_initials[column] = initial``).  For an aware ``datetime`` Python's
default sqlite3 adapter writes ``'2022-05-13 01:02:03+00:00'``, whereas Django
stores ``'2022-05-13 01:02:03'`` for the very same value (SQLite keeps
datetimes as text and compares them as text).  The evolved rows therefore do
not hold the value the field would have stored: ``filter(dt=value)`` and
``filter(dt__lte=value)`` skip them, although a row freshly saved with the
same value matches.  (For ``time``, ``timedelta`` and ``UUID`` initial values
the statement cannot even be executed: "type ... is not supported".)

The test computes both sides with the real code: the pre-existing rows after
the evolution, and a row saved through the ORM with the same Python value.
"""

from __future__ import unicode_literals

import datetime

from django.db import connection, models

from django_evolution.mutations import AddField, ChangeField
from django_evolution.tests.models import BaseTestModel

from hunt_demo.harness import DataTestCase, insert_rows


class InitialDBPrepTests(DataTestCase):
    def test_datetime_initial_is_stored_like_a_saved_value(self):
        """Testing AddField/ChangeField datetime initial values are stored
        the way the field stores them
        """
        class Base(BaseTestModel):
            a = models.IntegerField()
            changed = models.DateTimeField(null=True)

        class Dest(BaseTestModel):
            a = models.IntegerField()
            changed = models.DateTimeField()
            added = models.DateTimeField()

        self.set_base_model(Base, name='TestModel')
        self.create_tables()
        insert_rows('tests_testmodel', [
            {'id': 1, 'a': 1, 'changed': None},
            {'id': 2, 'a': 2, 'changed': None},
        ])

        value = datetime.datetime(2022, 5, 13, 1, 2, 3,
                                  tzinfo=datetime.timezone.utc)

        self.evolve([
            AddField('TestModel', 'added', models.DateTimeField,
                     initial=value),
            ChangeField('TestModel', 'changed', null=False, initial=value),
        ], show=True)

        # The final model, and a fresh row saved with the same value.
        self.register_model(Dest, name='TestModel')
        Dest.objects.create(id=3, a=3, added=value, changed=value)

        with connection.cursor() as cursor:
            cursor.execute('SELECT id, CAST(added AS text),'
                           ' CAST(changed AS text)'
                           ' FROM tests_testmodel ORDER BY id')
            stored = cursor.fetchall()

        added_matches = sorted(
            Dest.objects.filter(added=value).values_list('id', flat=True))
        changed_matches = sorted(
            Dest.objects.filter(changed__lte=value)
            .values_list('id', flat=True))

        print('  stored text (rows 1, 2 evolved; row 3 saved by the ORM):')

        for row in stored:
            print('     ', row)

        print('  filter(added=value)        ->', added_matches)
        print('  filter(changed__lte=value) ->', changed_matches)

        # All three rows hold "the same" value, so all three must match.
        self.assertEqual(added_matches, [1, 2, 3])
        self.assertEqual(changed_matches, [1, 2, 3])

        fresh = stored[2][1:]
        self.assertEqual(stored[0][1:], fresh)
        self.assertEqual(stored[1][1:], fresh)
