"""The optimiser's add+delete "no-op" tracking deletes/keeps the wrong field.

Property: every value in a column that survives the evolution - including
across field renames - is unchanged afterwards.

``AppMutator._process_mutation_batch`` records an AddField that is later
deleted in the same batch in ``noop_fields`` - a set of *names*.  The second
pass consults that set for every RenameField/DeleteField with that name in
the batch, no matter whether it comes before the AddField or after the
matching DeleteField.

History 1 (data loss): the existing column ``a`` is renamed to ``a2``; then a
scratch field that re-uses the name ``a`` is added and deleted again.  The
optimiser drops the RenameField (its old name is in ``noop_fields``) and keeps
the DeleteField - which now deletes the *original* column with all its values.

History 2 (column survives): ``a`` is deleted, re-added and deleted again.
The optimiser removes all three mutations, so the column stays.

Both runs below use the real code: once with the whole list in one
``AppMutator.run_mutations`` call (optimised) and once mutation by mutation.
"""

from __future__ import unicode_literals

from django.db import models

from django_evolution.mutations import AddField, DeleteField, RenameField
from django_evolution.tests.models import BaseTestModel

from hunt_demo.harness import DifferentialTestCase, insert_rows


class OptimizerNoopDeleteTests(DifferentialTestCase):
    def _set_models(self):
        class Base(BaseTestModel):
            a = models.IntegerField()
            b = models.CharField(max_length=20, null=True)

        self.set_base_model(Base, name='TestModel')

    def _populate(self):
        insert_rows('tests_testmodel', [
            {'id': 1, 'a': 10, 'b': 'x'},
            {'id': 2, 'a': -1, 'b': None},
            {'id': 3, 'a': 0, 'b': "it's 100%"},
        ])

    def test_rename_then_add_delete_same_name(self):
        """Testing RenameField + AddField/DeleteField re-using the old name
        keeps the renamed column's values
        """
        self._set_models()

        optimised, stepwise = self.run_both(self._populate, [
            RenameField('TestModel', 'a', 'a2'),
            AddField('TestModel', 'a', models.IntegerField, null=True),
            DeleteField('TestModel', 'a'),
        ])

        print('  optimised:', optimised['tests_testmodel'])
        print('  stepwise: ', stepwise['tests_testmodel'])

        # One at a time, the values of "a" live on in "a2".
        self.assertEqual(
            [row['a2'] for row in stepwise['tests_testmodel']],
            [10, -1, 0])
        self.assertEqual(optimised, stepwise)

    def test_delete_add_delete_same_name(self):
        """Testing DeleteField + AddField + DeleteField of one name deletes
        the column
        """
        self._set_models()

        optimised, stepwise = self.run_both(self._populate, [
            DeleteField('TestModel', 'a'),
            AddField('TestModel', 'a', models.CharField, max_length=10,
                     null=True),
            DeleteField('TestModel', 'a'),
        ])

        print('  optimised:', optimised['tests_testmodel'])
        print('  stepwise: ', stepwise['tests_testmodel'])

        self.assertEqual(optimised, stepwise)
