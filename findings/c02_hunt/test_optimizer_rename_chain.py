"""Collapsed RenameFields forget the last rename's db_column / db_table.

Property: every value in a column that survives the evolution - including
across field renames and many-to-many table renames - is unchanged afterwards.

When a batch renames a field more than once, the optimiser folds the chain
into the first RenameField.  It copies the *name* of the last rename
(``mutation.new_field_name = rename_mutations[0].new_field_name``) but not its
``db_column``/``db_table``.  The values end up in a column (or many-to-many
table) with a different name than the one the mutations ask for, the one the
simulated signature of the unoptimised list describes and the one the final
model reads from.

Each test runs the same list through the real code twice: in one
``AppMutator.run_mutations`` call (optimised) and mutation by mutation.
"""

from __future__ import unicode_literals

from django.db import models

from django_evolution.mutations import RenameField
from django_evolution.tests.models import BaseTestModel

from hunt_demo.harness import DifferentialTestCase, insert_rows


class OptimizerRenameChainTests(DifferentialTestCase):
    def _set_models(self):
        class Anchor(BaseTestModel):
            value = models.IntegerField()

        class Base(BaseTestModel):
            a = models.IntegerField()
            b = models.CharField(max_length=20, null=True,
                                 db_column='b_col')
            m = models.ManyToManyField(Anchor)

        self.set_base_model(Base, name='TestModel',
                            pre_extra_models=[('Anchor', Anchor)])

    def _populate(self):
        insert_rows('tests_anchor', [{'id': 1, 'value': 5},
                                     {'id': 2, 'value': 6}])
        insert_rows('tests_testmodel', [
            {'id': 1, 'a': 10, 'b_col': 'x'},
            {'id': 2, 'a': -1, 'b_col': None},
            {'id': 3, 'a': 0, 'b_col': "it's 100%"},
        ])
        insert_rows('tests_testmodel_m', [
            {'testmodel_id': 1, 'anchor_id': 2},
            {'testmodel_id': 3, 'anchor_id': 1},
        ])

    def test_last_rename_sets_db_column(self):
        """Testing RenameField + RenameField(db_column=...) stores the values
        in the requested column
        """
        self._set_models()

        optimised, stepwise = self.run_both(self._populate, [
            RenameField('TestModel', 'a', 'a2'),
            RenameField('TestModel', 'a2', 'a3', db_column='a_custom'),
        ])

        print('  optimised:', optimised['tests_testmodel'])
        print('  stepwise: ', stepwise['tests_testmodel'])

        self.assertEqual(
            [row['a_custom'] for row in stepwise['tests_testmodel']],
            [10, -1, 0])
        self.assertEqual(optimised, stepwise)

    def test_last_rename_resets_db_column(self):
        """Testing RenameField(db_column=...) + RenameField stores the values
        in the default column
        """
        self._set_models()

        optimised, stepwise = self.run_both(self._populate, [
            RenameField('TestModel', 'b', 'b2', db_column='b_col'),
            RenameField('TestModel', 'b2', 'b3'),
        ])

        print('  optimised:', optimised['tests_testmodel'])
        print('  stepwise: ', stepwise['tests_testmodel'])

        self.assertEqual(optimised, stepwise)

    def test_last_rename_sets_m2m_db_table(self):
        """Testing RenameField + RenameField(db_table=...) on a
        ManyToManyField keeps the rows in the requested table
        """
        self._set_models()

        optimised, stepwise = self.run_both(self._populate, [
            RenameField('TestModel', 'm', 'm2'),
            RenameField('TestModel', 'm2', 'm3', db_table='custom_m2m'),
        ])

        print('  optimised tables:', sorted(optimised))
        print('  stepwise tables: ', sorted(stepwise))

        self.assertEqual(len(stepwise['custom_m2m']), 2)
        self.assertEqual(optimised, stepwise)
