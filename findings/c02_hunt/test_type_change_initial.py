"""ChangeField(field_type=..., null=False, initial=X) ignores the initial.

Property: a null-to-non-null change replaces exactly the NULLs with the
declared initial value (and leaves every other value alone).

On SQLite a ChangeField that changes the field type is lowered to a
'CHANGE COLUMN TYPE' rebuild item that carries the new field (already
``NOT NULL``) but not ``mutation.initial``; ``ChangeField.mutate`` then returns
early because ``change_column_type_sets_attrs`` is True.  The rebuild copies
the NULLs into the NOT NULL column, so the evolution dies with an
IntegrityError instead of writing the declared initial value.  The simulation
demands the initial value, so there is no way to phrase this change that
works.

The same change expressed as two ChangeFields in separate runs (null first,
then type) does what the property says; the test uses that run - real code as
well - as the reference for the resulting rows.
"""

from __future__ import unicode_literals

from django.db import models

from django_evolution.mutations import ChangeField
from django_evolution.tests.models import BaseTestModel

from hunt_demo.harness import (DifferentialTestCase, dump_dicts,
                               insert_rows)


class TypeChangeInitialTests(DifferentialTestCase):
    def _set_models(self):
        class Base(BaseTestModel):
            a = models.IntegerField()
            c = models.CharField(max_length=20, null=True)

        self.set_base_model(Base, name='TestModel')

    def _populate(self):
        insert_rows('tests_testmodel', [
            {'id': 1, 'a': 10, 'c': None},
            {'id': 2, 'a': -1, 'c': ''},
            {'id': 3, 'a': 0, 'c': "it's 100%"},
            {'id': 4, 'a': 0, 'c': None},
        ])

    def test_type_change_with_null_false_and_initial(self):
        """Testing ChangeField with field_type, null=False and initial
        replaces the NULL values
        """
        self._set_models()

        # Reference: the same change in two steps, executed one at a time.
        self.create_tables()
        self._populate()
        self.evolve_stepwise([
            ChangeField('TestModel', 'c', null=False, initial='filled'),
            # (The simulation insists on an initial value here as well;
            # there are no NULLs left for it to replace.)
            ChangeField('TestModel', 'c', field_type=models.TextField,
                        null=False, initial='unused'),
        ])
        reference = dump_dicts('tests_testmodel')
        print()
        print('  reference (two steps):', reference)
        self.assertEqual([row['c'] for row in reference],
                         ['filled', '', "it's 100%", 'filled'])

        # The single mutation.
        self.drop_tables()
        self.create_tables()
        self._populate()

        self.evolve([
            ChangeField('TestModel', 'c', field_type=models.TextField,
                        null=False, initial='filled'),
        ], show=True)

        result = dump_dicts('tests_testmodel')
        print('  single mutation:      ', result)
        self.assertEqual(result, reference)
