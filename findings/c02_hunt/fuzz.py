"""Random differential tester for the data-preservation property.

Not a deliverable demonstration - an exploration tool.  Run with
FUZZ_SEEDS=a-b environment variable.
"""
from __future__ import print_function, unicode_literals

import os
import random
import traceback

from django.db import models

from django_evolution.errors import SimulationFailure
from django_evolution.mutations import (AddField, ChangeField, ChangeMeta,
                                        DeleteField, RenameField,
                                        RenameModel)
from django_evolution.tests.models import BaseTestModel

from hunt_demo.harness import (DataTestCase, dump_dicts, insert_rows,
                               table_schema, table_names)


INT_VALUES = [0, -1, 1, 42, 2147483647, -2147483648, 7, 8, 9, 10, 11, 12]
CHAR_VALUES = ['', 'x', "it's", '100%', '%s', 'caf\xe9', 'a"b', ' ', 'NULL',
               'abc', 'zz', '0']
KIND_TYPES = {
    'int': models.IntegerField,
    'bigint': models.BigIntegerField,
    'char': models.CharField,
    'text': models.TextField,
    'bool': models.BooleanField,
    'fk': models.ForeignKey,
    'm2m': models.ManyToManyField,
}


class F(object):
    """Oracle description of a field."""

    def __init__(self, name, kind, **attrs):
        self.name = name
        self.kind = kind
        self.attrs = attrs

    @property
    def column(self):
        if self.attrs.get('db_column'):
            return self.attrs['db_column']

        if self.kind == 'fk':
            return '%s_id' % self.name

        return self.name

    def clone(self):
        return F(self.name, self.kind, **dict(self.attrs))

    def django_kwargs(self):
        kw = dict(self.attrs)

        if self.kind == 'char':
            kw.setdefault('max_length', 20)

        return kw

    def __repr__(self):
        return 'F(%r, %r, %r)' % (self.name, self.kind, self.attrs)


class Case(object):
    def __init__(self, seed):
        self.seed = seed
        self.rnd = random.Random(seed)
        self.counter = 0

    def new_name(self, prefix='f'):
        self.counter += 1
        return '%s%d' % (prefix, self.counter)

    def rand_value(self, f, anchors):
        rnd = self.rnd
        null = f.attrs.get('null')

        if null and rnd.random() < 0.35:
            return None

        if f.kind in ('int', 'bigint'):
            return rnd.choice(INT_VALUES)
        elif f.kind in ('char', 'text'):
            return rnd.choice(CHAR_VALUES)
        elif f.kind == 'bool':
            return rnd.choice([0, 1])
        elif f.kind == 'fk':
            if not anchors:
                return None

            return rnd.choice(anchors)

        raise AssertionError(f.kind)

    def rand_field(self, allow_m2m=True, allow_not_null=True):
        rnd = self.rnd
        kinds = ['int', 'int', 'char', 'char', 'bool', 'fk', 'text']

        if allow_m2m:
            kinds.append('m2m')

        kind = rnd.choice(kinds)
        name = self.new_name()
        attrs = {}

        if kind == 'm2m':
            if rnd.random() < 0.4:
                attrs['db_table'] = 'custom_m2m_%s' % name

            return F(name, kind, **attrs)

        if kind != 'bool':
            attrs['null'] = rnd.random() < 0.5

            if not allow_not_null:
                attrs['null'] = True
        if kind == 'char':
            attrs['max_length'] = rnd.choice([10, 20, 30])
        if rnd.random() < 0.25:
            attrs['db_column'] = 'col_%s' % name
        if kind != 'text' and rnd.random() < 0.25:
            attrs['db_index'] = True

        return F(name, kind, **attrs)


def build_model(class_name, fields, anchor_model, meta_attrs=None):
    attrs = {'__module__': 'django_evolution.tests.models'}

    for f in fields:
        kw = f.django_kwargs()

        if f.kind == 'fk':
            attrs[f.name] = models.ForeignKey(anchor_model,
                                              on_delete=models.CASCADE,
                                              related_name='+', **kw)
        elif f.kind == 'm2m':
            attrs[f.name] = models.ManyToManyField(anchor_model,
                                                   related_name='+', **kw)
        else:
            attrs[f.name] = KIND_TYPES[f.kind](**kw)

    if meta_attrs:
        attrs['Meta'] = type(str('Meta'), (), meta_attrs)

    return type(str(class_name), (BaseTestModel,), attrs)


class FuzzTests(DataTestCase):
    def run_case(self, seed, verbose=False):
        case = Case(seed)
        rnd = case.rnd

        # ---- start models ---------------------------------------------
        class FuzzAnchor(BaseTestModel):
            value = models.IntegerField()

        fields = [case.rand_field() for i in range(rnd.randint(1, 5))]
        unique_together = []
        plain = [f for f in fields if f.kind != 'm2m']

        if False and len(plain) >= 2 and rnd.random() < 0.3:
            unique_together = [tuple(f.name for f in plain[:2])]

        meta = {}

        if unique_together:
            meta['unique_together'] = unique_together

        model = build_model('FuzzModel%d' % seed, fields, FuzzAnchor, meta)

        class FuzzChild(BaseTestModel):
            parent = models.ForeignKey(model, on_delete=models.CASCADE,
                                       related_name='+')
            note = models.CharField(max_length=10)

        self.set_base_model(model, name='TestModel',
                            pre_extra_models=[('FuzzAnchor', FuzzAnchor)],
                            extra_models=[('FuzzChild', FuzzChild)])
        self.create_tables()
        inserts = []

        from hunt_demo import harness as _harness

        def insert_rows(table, rows):
            inserts.append((table, rows))
            _harness.insert_rows(table, rows)

        # ---- rows -----------------------------------------------------
        anchors = list(range(1, rnd.randint(0, 3) + 1))
        insert_rows('tests_fuzzanchor',
                    [{'id': i, 'value': i * 10} for i in anchors])

        nrows = rnd.randint(0, 6)
        rows = []
        seen_ut = set()

        for i in range(1, nrows + 1):
            for attempt in range(20):
                row = {'id': i}
                ok = True

                for f in fields:
                    if f.kind == 'm2m':
                        continue
                    if f.kind == 'fk' and not anchors and \
                       not f.attrs.get('null'):
                        ok = False
                        break

                    row[f.name] = case.rand_value(f, anchors)

                if not ok:
                    break

                if unique_together:
                    key = tuple(row[n] for n in unique_together[0])

                    if key in seen_ut:
                        continue

                    seen_ut.add(key)

                break
            else:
                ok = False

            if not ok:
                break

            rows.append(row)

        col_of = dict((f.name, f.column) for f in fields)
        insert_rows('tests_testmodel', [
            dict((('id' if k == 'id' else col_of[k]), v)
                 for k, v in row.items())
            for row in rows
        ])

        m2m = {}

        for f in fields:
            if f.kind == 'm2m':
                table = f.attrs.get('db_table') or \
                    'tests_testmodel_%s' % f.name
                pairs = set()

                for row in rows:
                    for a in anchors:
                        if rnd.random() < 0.4:
                            pairs.add((row['id'], a))

                insert_rows(table, [
                    {'testmodel_id': p, 'fuzzanchor_id': a}
                    for p, a in sorted(pairs)
                ])
                m2m[f.name] = pairs

        children = []

        for i, row in enumerate(rows):
            if rnd.random() < 0.5:
                children.append({'id': i + 1, 'parent_id': row['id'],
                                 'note': 'n%d' % i})

        insert_rows('tests_fuzzchild', children)

        # ---- mutations ------------------------------------------------
        sig = self.start_sig.clone()
        db_state = self.database_state.clone()
        mutations = []
        model_name = 'TestModel'
        table = 'tests_testmodel'
        cur_fields = [f.clone() for f in fields]
        cur_rows = [dict(r) for r in rows]
        cur_ut = list(unique_together)
        log = []
        touched_null = set()
        added_now = set()
        col_changed = set()
        done = [False]

        def by_name(n):
            for f in cur_fields:
                if f.name == n:
                    return f

        def try_mutation(m):
            test_sig = sig.clone()

            try:
                m.run_simulation(app_label='tests', project_sig=test_sig,
                                 database_state=db_state.clone(),
                                 database='default')
            except SimulationFailure:
                return False

            m.run_simulation(app_label='tests', project_sig=sig,
                             database_state=db_state, database='default')
            mutations.append(m)
            return True

        n_muts = rnd.randint(1, 6)
        attempts = 0

        while len(mutations) < n_muts and attempts < 40 and not done[0]:
            attempts += 1
            plain = [f for f in cur_fields if f.kind != 'm2m']
            choice = rnd.choice(['other', 'add', 'add', 'delete', 'rename', 'rename',
                                 'null', 'null', 'attr', 'attr', 'type',
                                 'meta', 'dbcolumn', 'renamemodel',
                                 'reuse'])

            if choice == 'other':
                k = rnd.choice([0, 1, 2, 3])

                if k == 0:
                    m = AddField('FuzzAnchor', case.new_name('an'),
                                 models.IntegerField, initial=5)
                elif k == 1:
                    m = RenameField('FuzzChild', 'parent',
                                    case.new_name('par'))
                elif k == 2:
                    m = ChangeField('FuzzChild', 'note', null=True)
                else:
                    m = ChangeField('FuzzAnchor', 'value', null=True)

                try_mutation(m)
            elif choice == 'add':
                f = case.rand_field(allow_m2m=True)

                if f.kind == 'm2m':
                    m = AddField(model_name, f.name, models.ManyToManyField,
                                 related_model='tests.FuzzAnchor',
                                 **dict(f.attrs))
                    initial = None
                else:
                    kw = f.django_kwargs()
                    initial = None

                    if f.kind == 'fk':
                        kw['related_model'] = 'tests.FuzzAnchor'

                        if not anchors:
                            f.attrs['null'] = True
                            kw['null'] = True

                    if not f.attrs.get('null') or rnd.random() < 0.5:
                        f2 = f.clone()
                        f2.attrs['null'] = False
                        initial = case.rand_value(f2, anchors)

                    m = AddField(model_name, f.name, KIND_TYPES[f.kind],
                                 initial=initial, **kw)

                if try_mutation(m):
                    cur_fields.append(f)
                    added_now.add(id(f))

                    if f.kind == 'm2m':
                        m2m[f.name] = set()
                    else:
                        for r in cur_rows:
                            r[f.name] = initial
            elif choice == 'reuse':
                # Delete a field and add one back with the same name, or
                # add/delete a field named like an earlier one.
                if not plain:
                    continue

                f = rnd.choice(plain)
                m = DeleteField(model_name, f.name)

                if any(f.name in ut for ut in cur_ut):
                    continue

                if try_mutation(m):
                    cur_fields.remove(f)

                    for r in cur_rows:
                        del r[f.name]

                    nf = case.rand_field(allow_m2m=False)
                    nf.name = f.name
                    kw = nf.django_kwargs()
                    initial = None

                    if nf.kind == 'fk':
                        kw['related_model'] = 'tests.FuzzAnchor'

                        if not anchors:
                            nf.attrs['null'] = True
                            kw['null'] = True

                    if not nf.attrs.get('null') or rnd.random() < 0.5:
                        f2 = nf.clone()
                        f2.attrs['null'] = False
                        initial = case.rand_value(f2, anchors)

                    m = AddField(model_name, nf.name, KIND_TYPES[nf.kind],
                                 initial=initial, **kw)

                    if try_mutation(m):
                        cur_fields.append(nf)
                        added_now.add(id(nf))

                        for r in cur_rows:
                            r[nf.name] = initial
            elif choice == 'delete':
                if not cur_fields:
                    continue

                f = rnd.choice(cur_fields)

                if any(f.name in ut for ut in cur_ut):
                    continue

                m = DeleteField(model_name, f.name)

                if try_mutation(m):
                    cur_fields.remove(f)

                    if f.kind == 'm2m':
                        del m2m[f.name]
                    else:
                        for r in cur_rows:
                            del r[f.name]
            elif choice == 'rename':
                if not cur_fields:
                    continue

                f = rnd.choice(cur_fields)

                if any(f.name in ut for ut in cur_ut):
                    continue

                new_name = case.new_name()
                kw = {}

                if f.kind == 'm2m':
                    if rnd.random() < 0.5:
                        kw['db_table'] = 'custom_m2m_%s' % new_name
                else:
                    r = rnd.random()

                    if r < 0.3:
                        kw['db_column'] = 'col_%s' % new_name
                    elif r < 0.5 and f.attrs.get('db_column'):
                        kw['db_column'] = f.attrs['db_column']

                m = RenameField(model_name, f.name, new_name, **kw)

                if try_mutation(m):
                    old_name = f.name
                    f.name = new_name
                    col_changed.add(id(f))

                    if f.kind == 'm2m':
                        m2m[new_name] = m2m.pop(old_name)
                        f.attrs.pop('db_table', None)

                        if kw.get('db_table'):
                            f.attrs['db_table'] = kw['db_table']
                    else:
                        f.attrs.pop('db_column', None)

                        if kw.get('db_column'):
                            f.attrs['db_column'] = kw['db_column']

                        for r in cur_rows:
                            r[new_name] = r.pop(old_name)
            elif choice == 'null':
                cands = [f for f in plain if f.kind != 'bool']

                if not cands:
                    continue

                f = rnd.choice(cands)

                if id(f) in touched_null or id(f) in added_now:
                    continue

                touched_null.add(id(f))

                if f.attrs.get('null'):
                    f2 = f.clone()
                    f2.attrs['null'] = False

                    if f.kind == 'fk' and not anchors:
                        continue

                    initial = case.rand_value(f2, anchors)
                    m = ChangeField(model_name, f.name, null=False,
                                    initial=initial)

                    if try_mutation(m):
                        f.attrs['null'] = False

                        for r in cur_rows:
                            if r[f.name] is None:
                                r[f.name] = initial
                else:
                    m = ChangeField(model_name, f.name, null=True)

                    if try_mutation(m):
                        f.attrs['null'] = True
            elif choice == 'attr':
                if not plain:
                    continue

                f = rnd.choice(plain)
                kw = {}

                if f.kind == 'char' and rnd.random() < 0.5:
                    kw['max_length'] = rnd.choice([40, 50])
                if f.kind != 'text' and rnd.random() < 0.6:
                    kw['db_index'] = not f.attrs.get('db_index', False)
                if not kw or rnd.random() < 0.3:
                    if f.attrs.get('unique'):
                        kw['unique'] = False
                    else:
                        vals = [r[f.name] for r in cur_rows]

                        if len(set(vals)) == len(vals):
                            kw['unique'] = True

                if not kw:
                    continue

                m = ChangeField(model_name, f.name, **kw)

                if try_mutation(m):
                    f.attrs.update(kw)
            elif choice == 'type':
                cands = [f for f in plain if f.kind in ('int', 'char')]

                if not cands:
                    continue

                f = rnd.choice(cands)

                if id(f) in added_now or id(f) in touched_null:
                    continue

                touched_null.add(id(f))
                col_changed.add(id(f))
                new_kind = {'int': 'bigint', 'char': 'text'}[f.kind]
                kw = dict(f.attrs)

                if new_kind == 'text':
                    kw.pop('max_length', None)
                    kw.pop('db_index', None)

                initial = None

                if kw.get('null') and rnd.random() < 0.5:
                    if any(r[f.name] is None for r in cur_rows):
                        # known to fail (initial ignored on type change)
                        pass
                    else:
                        kw['null'] = False
                        f2 = f.clone()
                        f2.attrs['null'] = False
                        initial = case.rand_value(f2, anchors)

                m = ChangeField(model_name, f.name,
                                field_type=KIND_TYPES[new_kind],
                                initial=initial, **kw)

                if try_mutation(m):
                    f.kind = new_kind
                    f.attrs = kw
            elif choice == 'dbcolumn':
                if not plain:
                    continue

                f = rnd.choice(plain)

                col_changed.add(id(f))
                new_col = 'col_%s' % case.new_name('c')
                m = ChangeField(model_name, f.name, db_column=new_col)

                if try_mutation(m):
                    f.attrs['db_column'] = new_col
            elif choice == 'meta':
                if len(plain) < 2:
                    continue

                pick = rnd.sample(plain, 2)
                names = tuple(f.name for f in pick)

                if rnd.random() < 0.5:
                    if cur_ut:
                        new_ut = []
                    else:
                        keys = [tuple(r[n] for n in names) for r in cur_rows]

                        if len(set(keys)) != len(keys):
                            continue

                        new_ut = [names]

                    m = ChangeMeta(model_name, 'unique_together', new_ut)

                    if try_mutation(m):
                        cur_ut = new_ut
                else:
                    m = ChangeMeta(model_name, 'indexes',
                                   [{'fields': list(names),
                                     'name': 'idx_%s' % case.new_name('i')}])
                    try_mutation(m)
            elif choice == 'renamemodel':
                if model_name != 'TestModel' or rnd.random() < 0.5:
                    continue

                if any(f.kind == 'm2m' for f in cur_fields):
                    # RenameModel crashes up front for models with M2M.
                    continue

                new_table = rnd.choice(['tests_testmodel', 'tests_renamed',
                                        'custom_tbl'])
                m = RenameModel(model_name, 'TestModelRenamed', db_table=new_table)

                if try_mutation(m):
                    model_name = 'TestModelRenamed'
                    table = new_table

        if not mutations:
            return None

        if verbose:
            print('SEED', seed)
            print('  fields', fields)
            print('  rows', rows)

            for m in mutations:
                print('  ', m)

        # ---- evolve ---------------------------------------------------
        anchors_before = dump_dicts('tests_fuzzanchor')
        children_before = dump_dicts('tests_fuzzchild')

        try:
            executed = self.evolve(mutations, show=verbose)
        except Exception as e:
            return ('error', '%s: %s' % (type(e).__name__, e), mutations,
                    fields, rows)

        # ---- differential: one mutation at a time -----------------------
        def snapshot():
            snap = {}

            for t in sorted(table_names() - self._tables_before):
                snap[t] = sorted(
                    (tuple(sorted(r.items(), key=lambda p: p[0]))
                     for r in dump_dicts(t)),
                    key=repr)

            return snap

        snap_opt = snapshot()

        from django.db import connection as _conn
        from django_evolution.mutators import AppMutator
        from django_evolution.tests.utils import execute_test_sql

        _conn.disable_constraint_checking()

        try:
            with _conn.cursor() as _c:
                for name in table_names() - self._tables_before:
                    _c.execute('DROP TABLE %s' % _conn.ops.quote_name(name))
        finally:
            _conn.enable_constraint_checking()

        self.create_tables()

        for t, r in inserts:
            from hunt_demo.harness import insert_rows as _ins
            _ins(t, r)

        step_sig = self.start_sig.clone()

        try:
            for m in mutations:
                database_state = self.database_state.clone()
                database_state.rescan_tables()
                app_mutator = AppMutator(app_label='tests',
                                         project_sig=step_sig,
                                         database_state=database_state,
                                         database='default')
                app_mutator.run_mutations([m])
                step_sql = app_mutator.to_sql()
                step_sig = app_mutator.project_sig
                execute_test_sql(step_sql, database='default')
        except Exception as e:
            return ('error', 'STEPWISE %s: %s' % (type(e).__name__, e),
                    mutations, fields, rows)

        snap_step = snapshot()
        problems = []

        if snap_opt != snap_step:
            for t in sorted(set(snap_opt) | set(snap_step)):
                if snap_opt.get(t) != snap_step.get(t):
                    problems.append('table %s differs:\n     optimised %r\n'
                                    '     stepwise  %r'
                                    % (t, snap_opt.get(t), snap_step.get(t)))

        if problems:
            return ('data', problems, mutations, fields, rows, executed)

        return ('ok',)

    def test_fuzz(self):
        spec = os.environ.get('FUZZ_SEEDS', '0-50')
        lo, hi = spec.split('-')
        verbose = bool(os.environ.get('FUZZ_VERBOSE'))
        results = {'ok': 0, 'none': 0}
        errors = {}

        for seed in range(int(lo), int(hi)):
            try:
                result = self.run_case(seed, verbose=verbose)
            except Exception:
                print('SEED %d: HARNESS FAILURE' % seed)
                traceback.print_exc()
                result = ('harness',)
            finally:
                self.tearDown()
                self.setUp()

            if result is None:
                results['none'] += 1
            elif result[0] == 'ok':
                results['ok'] += 1
            elif result[0] == 'harness':
                results['harness'] = results.get('harness', 0) + 1
            elif result[0] == 'error':
                key = result[1][:90]
                errors.setdefault(key, []).append(seed)

                if len(errors[key]) == 1:
                    print('SEED %d ERROR %s' % (seed, result[1][:300]))

                    for m in result[2]:
                        print('    ', m)

                    print('    fields', result[3])
            else:
                print('SEED %d DATA PROBLEM' % seed)

                for p in result[1]:
                    print('   ', p)

                for m in result[2]:
                    print('    ', m)

                print('    fields', result[3])
                print('    rows', result[4])

                for line in result[5]:
                    print('      ', line)

                results['data'] = results.get('data', 0) + 1

        print(results)

        for key, seeds in errors.items():
            print(len(seeds), key, seeds[:10])
