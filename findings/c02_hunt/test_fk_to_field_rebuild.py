"""A table rebuild changes the values of a ForeignKey(to_field=...) column.

Property: every value in a column that survives an evolution - including
whole-table rebuilds - is unchanged afterwards.

Start models: Anchor(code=CharField(unique=True)) and
TestModel(ref=ForeignKey(Anchor, to_field='code')), so "ref_id" is a
varchar column holding codes such as '007' or '1e3'.  Any mutation that makes
the SQLite backend rebuild tests_testmodel (here: adding an unrelated nullable
column) re-creates "ref_id" as ``integer ... REFERENCES tests_anchor ("id")``,
because the field signature does not record ``to_field``.  SQLite's INTEGER
affinity then converts '007' to 7 and '1e3' to 1000 while copying the rows,
and every row now violates its (rewritten) foreign key.
"""

from __future__ import unicode_literals

from django.db import connection, models

from django_evolution.mutations import AddField
from django_evolution.tests.models import BaseTestModel

from hunt_demo.harness import (DataTestCase, dump_dicts, insert_rows,
                               table_schema)


class FKToFieldRebuildTests(DataTestCase):
    def test_rebuild_keeps_to_field_column_values(self):
        """Testing a SQLite table rebuild keeps ForeignKey(to_field=...)
        column values
        """
        class Anchor(BaseTestModel):
            code = models.CharField(max_length=10, unique=True)

        class Base(BaseTestModel):
            ref = models.ForeignKey(Anchor, to_field='code',
                                    on_delete=models.CASCADE)
            note = models.CharField(max_length=10, null=True)

        self.set_base_model(Base, name='TestModel',
                            pre_extra_models=[('Anchor', Anchor)])
        self.create_tables()

        insert_rows('tests_anchor', [
            {'id': 1, 'code': '007'},
            {'id': 2, 'code': 'abc'},
            {'id': 3, 'code': '1e3'},
            {'id': 4, 'code': '-0'},
        ])
        insert_rows('tests_testmodel', [
            {'id': 1, 'ref_id': '007', 'note': None},
            {'id': 2, 'ref_id': 'abc', 'note': ''},
            {'id': 3, 'ref_id': '1e3', 'note': "it's 100%"},
            {'id': 4, 'ref_id': '-0', 'note': 'x'},
        ])

        def fk_state():
            with connection.cursor() as cursor:
                cursor.execute('PRAGMA foreign_key_list("tests_testmodel")')
                refs = [(row[2], row[3], row[4])
                        for row in cursor.fetchall()]
                cursor.execute('PRAGMA foreign_key_check("tests_testmodel")')
                violations = cursor.fetchall()
                cursor.execute('SELECT id, ref_id, typeof(ref_id)'
                               ' FROM tests_testmodel ORDER BY id')
                values = cursor.fetchall()

            return refs, violations, values

        before_rows = dump_dicts('tests_testmodel')
        before_refs, before_violations, before_values = fk_state()
        self.assertEqual(before_violations, [])

        # Any mutation that needs a table rebuild will do.
        self.evolve([
            AddField('TestModel', 'added', models.IntegerField, null=True),
        ])

        after_rows = dump_dicts('tests_testmodel')
        after_refs, after_violations, after_values = fk_state()

        print()
        print('schema after:', table_schema('tests_testmodel'))
        print('values before:', before_values)
        print('values after: ', after_values)
        print('FK violations after:', after_violations)

        # Both sides come from the database: the surviving columns must hold
        # what they held before.
        self.assertEqual(
            [dict((k, v) for k, v in row.items() if k != 'added')
             for row in after_rows],
            before_rows)
        self.assertEqual(after_values, before_values)
        self.assertEqual(after_refs, before_refs)
        self.assertEqual(after_violations, [])
