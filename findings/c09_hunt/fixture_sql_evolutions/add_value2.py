"""An evolution that added TestModel.value2 through custom SQL."""

from __future__ import unicode_literals

from django.db import models

from django_evolution.mutations import SQLMutation


def _update_signature(simulation):
    # Older versions of django_evolution pass (app_label, project_sig).
    pass


MUTATIONS = [
    SQLMutation(
        'add_value2',
        ['ALTER TABLE "tests_testmodel" ADD COLUMN "value2" integer NULL;'],
        update_func=_update_signature),
]
