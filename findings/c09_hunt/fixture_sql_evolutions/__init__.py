"""Project-provided evolutions for the ``tests`` app (see CUSTOM_EVOLUTIONS).

Used by test_new_app_evolutions_executed.py.
"""

from __future__ import unicode_literals


SEQUENCE = [
    'add_value2',
]
