"""Pre-stage (initial) migrations are recorded as applied before they run.

EvolveAppTask._build_migrations_info() adds the pre-stage migration targets
(initial migrations of newly-installed apps) to
``migration_loader.extra_applied_migrations`` so that the post-stage plan can
be computed without them. That very same list is what
EvolveAppTask.execute_tasks() later writes to django_migrations "before we
begin any migrations" -- it was only meant to hold the migrations that
MoveToDjangoMigrations marks as applied.

Consequences, shown with the project's own fixture apps on a new database
(batches: [migrations_app 0001] [models + evolutions] [migrations_app 0002,
migrations_app2 0001, migrations_app2 0002]):

1. Each pre-stage migration is executed once but recorded twice.

2. ('migrations_app2', '0001_initial') is recorded as applied two batches
   before it runs. If anything in between fails, the record stays (it's
   written in autocommit mode), and the next run skips the migration: the
   unit is pending, and is never executed.
"""

from __future__ import unicode_literals

from django.db import connection, models

from django_evolution.compat.apps import get_app
from django_evolution.evolve import EvolveAppTask, Evolver
from django_evolution.models import Evolution, Version
from django_evolution.signals import applied_migration, creating_models
from django_evolution.tests.base_test_case import (EvolutionTestCase,
                                                   MigrationsTestsMixin)
from django_evolution.tests.migrations_app2.models import \
    MigrationsApp2TestModel
from django_evolution.tests.models import BaseTestModel
from django_evolution.utils.migrations import clear_global_custom_migrations


class HuntBaseModel5(BaseTestModel):
    value = models.CharField(max_length=100)


class SimulatedFailure(Exception):
    pass


class PreStageMigrationsRecordedEarlyTests(MigrationsTestsMixin,
                                           EvolutionTestCase):
    needs_evolution_models = True
    default_base_model = HuntBaseModel5

    app_names = ['evolutions_app', 'evolutions_app2', 'evolution_deps_app',
                 'migrations_app', 'migrations_app2']

    def setUp(self):
        super(PreStageMigrationsRecordedEarlyTests, self).setUp()

        self.executed = []
        applied_migration.connect(self._on_applied_migration)

    def tearDown(self):
        clear_global_custom_migrations()
        applied_migration.disconnect(self._on_applied_migration)

        super(PreStageMigrationsRecordedEarlyTests, self).tearDown()

    def _on_applied_migration(self, sender, migration, **kwargs):
        self.executed.append((migration.app_label, migration.name))

    def _get_recorded(self):
        with connection.cursor() as cursor:
            cursor.execute(
                "SELECT app, name FROM django_migrations"
                " WHERE app IN ('migrations_app', 'migrations_app2')"
                " ORDER BY app, name")

            return [tuple(row) for row in cursor.fetchall()]

    def _run(self):
        evolver = Evolver()
        tasks = [
            EvolveAppTask(evolver=evolver,
                          app=get_app(app_name))
            for app_name in self.app_names
        ]
        EvolveAppTask.prepare_tasks(evolver, tasks)
        EvolveAppTask.execute_tasks(evolver, tasks)

    def test_each_migration_recorded_once(self):
        """Every executed migration is recorded exactly once"""
        self.ensure_deleted_apps()
        self._run()

        self.assertEqual(len(self.executed), 4)
        self.assertEqual(self._get_recorded(), sorted(self.executed))

    def test_not_recorded_before_executed(self):
        """A migration is only recorded as applied once it's been executed,
        so that it's applied by the next run after a failure
        """
        self.ensure_deleted_apps()

        # Fail in the second batch, after the first pre-stage migration and
        # before the second one.
        def _on_creating_models(**kwargs):
            raise SimulatedFailure()

        creating_models.connect(_on_creating_models)

        try:
            with self.assertRaises(SimulatedFailure):
                self._run()
        finally:
            creating_models.disconnect(_on_creating_models)

        print('\nexecuted: %r\nrecorded: %r'
              % (self.executed, self._get_recorded()))

        self.assertEqual(self.executed, [('migrations_app', '0001_initial')])
        self.assertEqual(sorted(set(self._get_recorded())),
                         sorted(self.executed))

        # Run again, this time without the failure. Everything pending gets
        # applied.
        self.executed = []
        self._run()

        self.assertEqual(
            sorted(self.executed),
            [
                ('migrations_app', '0002_add_field'),
                ('migrations_app2', '0001_initial'),
                ('migrations_app2', '0002_add_field'),
            ])
        MigrationsApp2TestModel.objects.create(char_field='abc',
                                               added_field=True)
