"""Satisfied evolution dependencies crash prepare_tasks() if they have no node.

A dependency on an evolution (or on an app's evolutions as a whole) is only
dropped from the EvolutionGraph by EvolutionGraph.mark_evolutions_applied(),
and EvolveAppTask._build_evolutions_graph() only calls that

* for labels returned by get_applied_evolutions(), and
* if that list isn't empty.

Two kinds of satisfiable requirements fall through and end up as an
AssertionError in DependencyGraph.finalize() (a KeyError under ``python -O``):

1. The target is a pending evolution that has nothing to execute, so its
   task has ``evolution_required=False`` and gets no nodes. The documentation
   recommends exactly such evolutions for carrying dependencies ("define this
   as its own empty ``initial.py`` evolution"). The on-disk fixture
   ('evolution_deps_app', 'test_evolution') has ``MUTATIONS = []``.

2. The target is an app as a whole (``'tests'``), the app is installed, has
   nothing pending, and never recorded an evolution (an app without
   evolutions). The documentation says such a dependency works "no matter
   which models may exist or which evolutions may have already been applied".

In both tests, the schedule is computed by the real prepare_tasks() twice:
once in a state where the target has a node/is recorded (works today), and
once in the equivalent state where it doesn't.
"""

from __future__ import unicode_literals

from django.db import models

from django_evolution.compat.apps import get_app
from django_evolution.consts import UpgradeMethod
from django_evolution.evolve import EvolveAppTask, Evolver
from django_evolution.models import Evolution
from django_evolution.mutations import ChangeField
from django_evolution.tests import models as evo_test
from django_evolution.tests.base_test_case import (EvolutionTestCase,
                                                   MigrationsTestsMixin)
from django_evolution.tests.models import BaseTestModel
from django_evolution.utils.migrations import clear_global_custom_migrations


class HuntBaseModel6(BaseTestModel):
    value = models.CharField(max_length=100)


class UndischargedEvolutionDepsTests(MigrationsTestsMixin,
                                     EvolutionTestCase):
    needs_evolution_models = True
    default_base_model = HuntBaseModel6

    def tearDown(self):
        # prepare_tasks() doesn't clean this up when it fails.
        clear_global_custom_migrations()

        super(UndischargedEvolutionDepsTests, self).tearDown()

    def _schedule(self, evolver, tasks):
        """Return the evolutions scheduled by prepare_tasks()."""
        EvolveAppTask.prepare_tasks(evolver, tasks)

        return [
            [
                (task.app_label, task_info['evolutions'],
                 task_info.get('sql'))
                for task, task_info in batch.get('task_evolutions',
                                                 {}).items()
            ]
            for batch in evolver._evolve_app_task_state['batches']
            if (batch['type'] == UpgradeMethod.EVOLUTIONS and
                batch.get('task_evolutions'))
        ]

    def test_dependency_on_pending_noop_evolution(self):
        """AFTER_EVOLUTIONS may name a pending evolution that has nothing to
        execute
        """
        evolutions_app = get_app('evolutions_app')
        deps_app = get_app('evolution_deps_app')

        def _make_tasks(evolver):
            return [
                EvolveAppTask(evolver=evolver,
                              app=deps_app),
                EvolveAppTask(
                    evolver=evolver,
                    app=evolutions_app,
                    evolutions=[
                        {
                            'label': 'third_evolution',
                            'after_evolutions': [
                                ('evolution_deps_app', 'test_evolution'),
                            ],
                            'mutations': [
                                ChangeField('EvolutionsAppTestModel',
                                            'char_field', max_length=50),
                            ],
                        },
                    ]),
            ]

        self.ensure_deleted_apps()
        self.ensure_evolved_apps([evolutions_app, deps_app])

        # (evolution_deps_app, test_evolution) is recorded as applied.
        self.assertTrue(
            Evolution.objects
            .filter(app_label='evolution_deps_app', label='test_evolution')
            .exists())

        evolver = Evolver()
        schedule_applied = self._schedule(evolver, _make_tasks(evolver))

        self.assertEqual(
            [[(app_label, labels) for app_label, labels, sql in batch]
             for batch in schedule_applied],
            [[('evolutions_app', ['third_evolution'])]])

        # Now it's pending. It has MUTATIONS = [], so there's still nothing
        # to execute for it. It'll be recorded at the end of the run.
        Evolution.objects.filter(app_label='evolution_deps_app').delete()

        evolver = Evolver()
        tasks = _make_tasks(evolver)
        schedule_pending = self._schedule(evolver, tasks)

        self.assertEqual([evolution.label
                          for evolution in tasks[0].new_evolutions],
                         ['test_evolution'])
        self.assertEqual(schedule_pending, schedule_applied)

    def test_dependency_on_installed_app_without_evolutions(self):
        """BEFORE_EVOLUTIONS may name an app that's installed and has no
        evolutions
        """
        evolutions_app = get_app('evolutions_app')

        def _make_tasks(evolver):
            return [
                EvolveAppTask(evolver=evolver,
                              app=evo_test),
                EvolveAppTask(
                    evolver=evolver,
                    app=evolutions_app,
                    evolutions=[
                        {
                            'label': 'third_evolution',
                            'before_evolutions': ['tests'],
                            'mutations': [
                                ChangeField('EvolutionsAppTestModel',
                                            'char_field', max_length=50),
                            ],
                        },
                    ]),
            ]

        self.ensure_deleted_apps()
        self.ensure_evolved_apps([evolutions_app])

        # The tests app is new, and will have its model created.
        evolver = Evolver()
        self.assertIsNone(evolver.project_sig.get_app_sig('tests'))

        schedule_new = self._schedule(evolver, _make_tasks(evolver))
        self.assertEqual(
            [[(app_label, labels) for app_label, labels, sql in batch]
             for batch in schedule_new],
            [[('evolutions_app', ['third_evolution'])]])

        # Now install the tests app. There's nothing left to do for it.
        self.ensure_evolved_apps([evo_test])

        evolver = Evolver()
        self.assertIsNotNone(evolver.project_sig.get_app_sig('tests'))

        schedule_installed = self._schedule(evolver, _make_tasks(evolver))
        self.assertEqual(schedule_installed, schedule_new)
